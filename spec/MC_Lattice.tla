---------------------------- MODULE MC_Lattice ----------------------------
(* Exhaustive model of the lattice machine over a family of small dictionaries.
   Alphabet: 97 'a' (category A), 98 'b' (DEFAULT), 32 ' ' (SPACE), optionally an astral
   character 128512 (DEFAULT by the property's reading). *)
EXTENDS VBase
CONSTANTS MaxN, UseAstral, Family

Chars == {97, 98, 32} \cup (IF UseAstral THEN {128512} ELSE {})
Words == << <<97>>, <<97, 98>>, <<98, 97>>, <<97, 97, 97>>, <<97>>, <<97, 32, 98>> >>
WordParams(i) == [l |-> i % 2, r |-> (i + 1) % 2, c |-> 3 * i - 5]
LexOf(ids) == [k \in 1..Len(ids) |-> [s |-> Words[ids[k]], l |-> WordParams(ids[k]).l, r |-> WordParams(ids[k]).r,
                                       c |-> WordParams(ids[k]).c, f |-> "w"]]
LexSets == IF Family = "full" THEN {<<1>>, <<1, 2>>, <<2, 3, 4>>, <<1, 5>>, <<>>}
           ELSE IF Family = "space" THEN {<<1, 6>>, <<2, 6, 3>>}
           ELSE {<<1, 2>>, <<2, 3, 4>>, <<1, 5>>}
UserSets == IF Family = "full" THEN {<<>>, <<3>>} ELSE {<<>>}
Mats == << <<-2, 3, 3, -2>>, <<0, 2, -3, -1>> >>       \* flat: cell (r,l) at l*2 + r + 1
Unk == << [cat |-> 2, l |-> 1, r |-> 1, c |-> 4, f |-> "uA1"],
          [cat |-> 0, l |-> 0, r |-> 1, c |-> 7, f |-> "uD"],
          [cat |-> 1, l |-> 1, r |-> 0, c |-> 2, f |-> "uS"],
          [cat |-> 2, l |-> 0, r |-> 0, c |-> 5, f |-> "uA2"] >>
MkDict(ia, ga, la, id, gd, ld, multi, lx, ux, m) ==
   [ cats |-> << [invoke |-> id, group |-> gd, length |-> ld],
                 [invoke |-> 0, group |-> 1, length |-> 0],
                 [invoke |-> ia, group |-> ga, length |-> la] >>,
     space |-> 1,
     ranges |-> << [lo |-> 32, hi |-> 32, cs |-> <<1>>],
                   [lo |-> 97, hi |-> 98, cs |-> <<0>>],
                   [lo |-> 97, hi |-> 97, cs |-> IF multi THEN <<2, 0>> ELSE <<2>>] >>,
     lex |-> LexOf(lx), user |-> LexOf(ux), unk |-> Unk,
     nr |-> 2, nl |-> 2, mat |-> Mats[m] ]
FamDicts == {MkDict(ia, ga, la, id, gd, ld, multi, lx, ux, m) :
               ia \in {0, 1}, ga \in {0, 1}, la \in (IF Family = "full" THEN {0, 1, 2} ELSE {0, 2}),
               id \in {0, 1}, gd \in {0, 1}, ld \in {0, 2},
               multi \in (IF Family = "full" THEN BOOLEAN ELSE {FALSE}),
               lx \in LexSets, ux \in UserSets, m \in {1, 2}}
FamOpts == [isp : BOOLEAN, mgl : {0, 1}]
FamSents == SeqsUpTo(Chars, MaxN)

VARIABLES D, O, s, pc, sn, sw, ends, eos, top, lc, rc
INSTANCE VLattice WITH Dicts <- FamDicts, Optss <- FamOpts, Sents <- FamSents

(* the brute-force clause applies where a "chain" is unambiguous (see DESIGN 3.3) *)
OptimalMC == pc = "done" /\ Len(s) > 0 =>
                /\ eos.mc = OptCost(D, O, s, T)
                /\ eos.mc = ChainTotal(D, Toks)
                /\ (~O.isp \/ SpaceIsolated(D, Chars) => eos.mc = Brute(0, 0))
===========================================================================
