---------------------------- MODULE VSystem ----------------------------
(* The tool chain as a state machine over artefacts on "disk" (section 11, step 6).
   Artefacts: the definition files (always present), the compiled dictionary `dic`, the
   mapping files `map` written by reorder.  Tools are actions with preconditions; a tool whose
   input file is missing fails and changes nothing.
       Compile            defs -> dic            (a fresh dictionary: identity id mapping)
       Reorder(lines)     dic  -> map            (orders of ids by frequency over the lines)
       Map                dic, map -> dic        (ids renamed; the mapper is composed)
       Tokenize(o, u)     dic  -> output         (options o, optional user lexicon u)
   The abstract content of `dic` is the dictionary value of VDictOps; what Tokenize prints is
   determined by VPath / VCand, what Reorder writes by VWorkerOps.EvalCounts.  The generator
   Gen_System enumerates histories of tool invocations; Trace_System validates what the real
   binaries did. *)
EXTENDS VDictOps

Tools == {"compile", "reorder", "map", "tokenize"}
Needs(tool) == CASE tool = "compile" -> {} [] tool = "reorder" -> {"dic"} [] tool = "map" -> {"dic", "map"} [] tool = "tokenize" -> {"dic"}
Writes(tool) == CASE tool = "compile" -> {"dic"} [] tool = "reorder" -> {"map"} [] tool = "map" -> {"dic"} [] tool = "tokenize" -> {}
Succeeds(fs, tool) == Needs(tool) \subseteq fs
After(fs, tool) == IF Succeeds(fs, tool) THEN fs \cup Writes(tool) ELSE fs

(* counts over training lines with a plain tokenizer, as the reorder tool does; the dictionary
   FILE holds no user lexicon *)
RECURSIVE SumCountsS(_, _, _, _)
SumCountsS(D, lines, i, acc) ==
   IF i > Len(lines) THEN acc
   ELSE LET e == EvalCounts(D, [isp |-> FALSE, mgl |-> 0], lines[i]) IN
        SumCountsS(D, lines, i + 1, [lc |-> [x \in 0..(D.nl - 1) |-> acc.lc[x] + e.lc[x]], rc |-> [x \in 0..(D.nr - 1) |-> acc.rc[x] + e.rc[x]]])
ReorderCounts(D, lines) ==
   SumCountsS([D EXCEPT !.user = <<>>], lines, 1, [lc |-> [x \in 0..(D.nl - 1) |-> 0], rc |-> [x \in 0..(D.nr - 1) |-> 0]])
(* the orders reorder must write: a deterministic function of the counts *)
OrderOf(cnt, n) == SetToSortSeq(1..(n - 1), LAMBDA a, b : cnt[a] > cnt[b] \/ (cnt[a] = cnt[b] /\ a < b))

(* `tokenize -O detail` prints surface, feature, lexicon type, ids and costs but no ranges and no
   word ids; the ranges are DERIVED by the chain rule, the word id is any candidate that fits *)
RECURSIVE CliDerive(_, _, _, _, _, _, _)
CliDerive(D, O, s, T, toks, i, prevE) ==       \* returns [ok, core] ; core = Seq of tokens with b, e, id
   IF i > Len(toks) THEN [ok |-> TRUE, core |-> <<>>]
   ELSE IF prevE >= Len(s) THEN [ok |-> FALSE, core |-> <<>>]
   ELSE LET t == toks[i]
            b == NextStart(D, O, s, T, prevE)
            e == b + Len(t.surf)
            fits == IF b >= Len(s) \/ e > Len(s) THEN {}
                    ELSE {w \in CandsAt(D, O, s, T, b) : w.e = e /\ w.lt = t.lt /\ w.l = t.l /\ w.r = t.r /\ w.c = t.c
                                                          /\ EntryFeature(D, w.lt, w.id) = t.f}
        IN IF fits = {} \/ (e <= Len(s) /\ Slice(s, b, e) # t.surf) THEN [ok |-> FALSE, core |-> <<>>]
           ELSE LET w == CHOOSE w \in fits : TRUE
                    rest == CliDerive(D, O, s, T, toks, i + 1, e)
                IN [ok |-> rest.ok, core |-> <<[b |-> b, e |-> e, lt |-> w.lt, id |-> w.id, l |-> w.l, r |-> w.r, c |-> w.c, tot |-> t.tot]>> \o rest.core]

=======================================================================
