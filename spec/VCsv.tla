---------------------------- MODULE VCsv ----------------------------
(* The lexicon CSV reader (C11), character level.  Text and fields are sequences of code
   points.  The machine follows csv_core's default reader (delimiter ',', quote '"' special
   only at the start of a field, "" inside a quoted field, records terminated by LF, blank
   lines skipped) and Lexicon::parse_csv's accounting of the RAW feature remainder:
       surface = unquoted field 1;  left id, right id, cost = fields 2..4 as numbers;
       feature = the raw text after the fourth comma up to the end of the record.
   ParseLex returns [ok, rows]; ok = FALSE for texts outside the well-formed domain
   (fewer than five fields, non-numeric ids). *)
EXTENDS VBase

COMMA == 44   QUOTE == 34   LF == 10   MINUS == 45

IsDigit(c) == 48 <= c /\ c <= 57
RECURSIVE DigitsVal(_, _, _)
DigitsVal(f, i, acc) == IF i > Len(f) THEN acc ELSE DigitsVal(f, i + 1, 10 * acc + (f[i] - 48))
IsNat(f) == Len(f) > 0 /\ Len(f) <= 9 /\ \A i \in 1..Len(f) : IsDigit(f[i])
IsInt(f) == IsNat(f) \/ (Len(f) > 1 /\ f[1] = MINUS /\ IsNat(Tail(f)))
IntVal(f) == IF f[1] = MINUS THEN 0 - DigitsVal(Tail(f), 1, 0) ELSE DigitsVal(f, 1, 0)

(* one record: fields (unquoted), and for each field the index in the text where it starts *)
(* st: "fs" field start | "u" unquoted | "q" quoted | "aq" after closing quote *)
RowOf(text, flds, starts, recEnd) ==
   IF Len(flds) < 5 THEN [ok |-> FALSE]
   ELSE IF ~(IsNat(flds[2]) /\ IsNat(flds[3]) /\ IsInt(flds[4])) THEN [ok |-> FALSE]
   ELSE [ok |-> TRUE, s |-> flds[1], l |-> IntVal(flds[2]), r |-> IntVal(flds[3]), c |-> IntVal(flds[4]),
         f |-> SubSeq(text, starts[5], recEnd - 1)]

RECURSIVE Scan(_, _, _, _, _, _, _, _)
Scan(text, i, st, fld, flds, starts, ok, rows) ==
   LET n == Len(text)
       endRecord(fl, ss, at) ==      \* at = index of the terminator (or n + 1 at EOF)
          IF Len(fl) = 1 /\ fl[1] = <<>> /\ ss[1] = at
          THEN [ok |-> ok, rows |-> rows]                                    \* blank line
          ELSE LET row == RowOf(text, fl, ss, at) IN
               IF ~row.ok THEN [ok |-> FALSE, rows |-> rows]
               ELSE [ok |-> ok, rows |-> IF row.s = <<>> THEN rows ELSE Append(rows, row)]   \* empty surface skipped
   IN
   IF i > n THEN
      (IF st = "fs" /\ flds = <<>> THEN [ok |-> ok, rows |-> rows]
       ELSE endRecord(Append(flds, fld), IF st = "fs" THEN Append(starts, n + 1) ELSE starts, n + 1))
   ELSE LET c == text[i] IN
      IF st = "fs" THEN
         (IF c = QUOTE THEN Scan(text, i + 1, "q", <<>>, flds, Append(starts, i), ok, rows)
          ELSE IF c = COMMA THEN Scan(text, i + 1, "fs", <<>>, Append(flds, <<>>), Append(starts, i), ok, rows)
          ELSE IF c = LF THEN LET r == endRecord(Append(flds, <<>>), Append(starts, i), i) IN
                              Scan(text, i + 1, "fs", <<>>, <<>>, <<>>, r.ok, r.rows)
          ELSE Scan(text, i + 1, "u", <<c>>, flds, Append(starts, i), ok, rows))
      ELSE IF st = "u" THEN
         (IF c = COMMA THEN Scan(text, i + 1, "fs", <<>>, Append(flds, fld), starts, ok, rows)
          ELSE IF c = LF THEN LET r == endRecord(Append(flds, fld), starts, i) IN
                              Scan(text, i + 1, "fs", <<>>, <<>>, <<>>, r.ok, r.rows)
          ELSE Scan(text, i + 1, "u", Append(fld, c), flds, starts, ok, rows))
      ELSE IF st = "q" THEN
         (IF c = QUOTE THEN Scan(text, i + 1, "aq", fld, flds, starts, ok, rows)
          ELSE Scan(text, i + 1, "q", Append(fld, c), flds, starts, ok, rows))
      ELSE \* "aq"
         (IF c = QUOTE THEN Scan(text, i + 1, "q", Append(fld, QUOTE), flds, starts, ok, rows)
          ELSE IF c = COMMA THEN Scan(text, i + 1, "fs", <<>>, Append(flds, fld), starts, ok, rows)
          ELSE IF c = LF THEN LET r == endRecord(Append(flds, fld), starts, i) IN
                              Scan(text, i + 1, "fs", <<>>, <<>>, <<>>, r.ok, r.rows)
          ELSE Scan(text, i + 1, "u", Append(fld, c), flds, starts, ok, rows))

ParseLex(text) == Scan(text, 1, "fs", <<>>, <<>>, <<>>, TRUE, <<>>)

(* ---- rendering (the harness' renderer restated, for the model) ---- *)
NeedsQuote(s) == \E i \in 1..Len(s) : s[i] \in {COMMA, QUOTE, LF}
RECURSIVE Escape(_, _)
Escape(s, i) == IF i > Len(s) THEN <<>> ELSE (IF s[i] = QUOTE THEN <<QUOTE, QUOTE>> ELSE <<s[i]>>) \o Escape(s, i + 1)
Cell(s, force) == IF force \/ NeedsQuote(s) THEN <<QUOTE>> \o Escape(s, 1) \o <<QUOTE>> ELSE s
RECURSIVE NatDigits(_)
NatDigits(n) == IF n < 10 THEN <<48 + n>> ELSE Append(NatDigits(n \div 10), 48 + (n % 10))
IntText(n) == IF n < 0 THEN <<MINUS>> \o NatDigits(0 - n) ELSE NatDigits(n)
RenderRow(r, force) == Cell(r.s, force) \o <<COMMA>> \o IntText(r.l) \o <<COMMA>> \o IntText(r.r) \o <<COMMA>> \o IntText(r.c) \o <<COMMA>> \o r.f
(* style : [final : BOOLEAN, blankBefore, blankBetween, blankAfter : BOOLEAN, force : BOOLEAN] *)
RECURSIVE RenderRows(_, _, _)
RenderRows(rows, i, st) ==
   IF i > Len(rows) THEN <<>>
   ELSE RenderRow(rows[i], st.force)
        \o (IF i < Len(rows) THEN <<LF>> \o (IF st.blankBetween THEN <<LF>> ELSE <<>>) ELSE <<>>)
        \o RenderRows(rows, i + 1, st)
Render(rows, st) == (IF st.blankBefore THEN <<LF>> ELSE <<>>) \o RenderRows(rows, 1, st)
                    \o (IF st.final /\ Len(rows) > 0 THEN <<LF>> ELSE <<>>) \o (IF st.blankAfter /\ st.final THEN <<LF, LF>> ELSE <<>>)
NonEmpty(rows) == SelectSeq(rows, LAMBDA r : r.s # <<>>)
=====================================================================
