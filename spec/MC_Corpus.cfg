SPECIFICATION Spec
CONSTANTS
  MaxLines = 4
  Emit = FALSE
INVARIANTS RoundTrip NoEmpty MalformedRejected Tokenizer EmitInv
CHECK_DEADLOCK FALSE
