---------------------------- MODULE VCost_proofs ----------------------------
(* Unbounded proof (TLAPS) of the arithmetic clause of C14: for EVERY non-negative largest
   absolute weight mx and EVERY integer weight w with |w| <= mx, the scaled cost fits 16 bits
   (in fact lies in -32767..32767) and lower cost means higher model score (a positive weight
   never gets a positive cost, a negative weight never a negative one).  MC_Model checks the
   same on small weight tables only. *)
EXTENDS VCost, TLAPS

LEMMA DivBound == ASSUME NEW a \in Nat, NEW b \in Nat \ {0}, NEW c \in Nat, a <= c * b PROVE a \div b <= c
  OBVIOUS

THEOREM Fits16 ==
  ASSUME NEW mx \in Nat, NEW w \in Int, Abs(w) <= mx
  PROVE  /\ CostOfW(mx, w) >= -32767 /\ CostOfW(mx, w) <= 32767
         /\ (w > 0 => CostOfW(mx, w) <= 0) /\ (w < 0 => CostOfW(mx, w) >= 0)
<1>1. CASE mx = 0
  BY <1>1 DEF CostOfW
<1>2. CASE mx # 0
  <2>1. mx \in Nat \ {0} BY <1>2
  <2>2. Abs((0 - w) * 32767) = Abs(w) * 32767 BY DEF Abs
  <2>3. Abs(w) \in Nat /\ Abs(w) * 32767 \in Nat BY DEF Abs
  <2>4. Abs(w) * 32767 <= 32767 * mx BY <2>3 DEF Abs
  <2>5. (Abs(w) * 32767) \div mx <= 32767 BY <2>1, <2>3, <2>4, DivBound
  <2>6. (Abs(w) * 32767) \div mx >= 0 BY <2>1, <2>3
  <2>7. (Abs(w) * 32767) \div mx \in Int BY <2>1, <2>3
  <2> QED BY <1>2, <2>2, <2>5, <2>6, <2>7 DEF CostOfW, TruncDiv, Sgn, Abs
<1> QED BY <1>1, <1>2

(* lower cost means higher model score, for all weights: the scaling is antitone *)
LEMMA MulMono == ASSUME NEW b \in Nat, NEW q \in Nat, NEW k \in Nat, q >= k PROVE b * q >= b * k
  OBVIOUS
LEMMA DivMod == ASSUME NEW a \in Nat, NEW b \in Nat \ {0} PROVE a = b * (a \div b) + (a % b) /\ 0 <= a % b /\ a % b < b /\ a \div b \in Nat
  OBVIOUS
LEMMA DivBound2 == ASSUME NEW a \in Nat, NEW b \in Nat \ {0}, NEW c \in Nat, a < (c + 1) * b PROVE a \div b <= c
<1>1. a = b * (a \div b) + (a % b) /\ 0 <= a % b /\ a % b < b /\ a \div b \in Nat BY DivMod
<1>2. SUFFICES ASSUME a \div b >= c + 1 PROVE FALSE BY <1>1
<1>3. b * (a \div b) >= b * (c + 1) BY <1>1, <1>2, MulMono
<1>4. b * (c + 1) = (c + 1) * b OBVIOUS
<1> QED BY <1>1, <1>3, <1>4
LEMMA DivUpper == ASSUME NEW y \in Nat, NEW m \in Nat \ {0} PROVE y \div m \in Nat /\ y < ((y \div m) + 1) * m
  OBVIOUS
LEMMA DivMono == ASSUME NEW x \in Nat, NEW y \in Nat, NEW m \in Nat \ {0}, x <= y PROVE x \div m <= y \div m
<1>1. y \div m \in Nat /\ y < ((y \div m) + 1) * m BY DivUpper
<1>2. x < ((y \div m) + 1) * m BY <1>1
<1> QED BY <1>1, <1>2, DivBound2

THEOREM Antitone ==
  ASSUME NEW mx \in Nat, NEW a \in Int, NEW b \in Int, a > b
  PROVE  CostOfW(mx, a) <= CostOfW(mx, b)
<1>1. CASE mx = 0
  BY <1>1 DEF CostOfW
<1>2. CASE mx # 0
  <2>0. mx \in Nat \ {0} BY <1>2
  (* the value of the scaled cost by the sign of the weight *)
  <2>P. ASSUME NEW w \in Int, w > 0 PROVE CostOfW(mx, w) = 0 - ((w * 32767) \div mx)
    <3>0. (0 - w) * 32767 = 0 - (w * 32767) /\ w * 32767 > 0 BY <2>P
    <3>1. (0 - w) * 32767 < 0 /\ Abs((0 - w) * 32767) = w * 32767 BY <3>0 DEF Abs
    <3>2. (w * 32767) \div mx \in Int BY <2>0, <2>P
    <3> QED BY <1>2, <3>1, <3>2 DEF CostOfW, TruncDiv, Sgn
  <2>N. ASSUME NEW w \in Int, w < 0 PROVE CostOfW(mx, w) = ((0 - w) * 32767) \div mx
    <3>1. (0 - w) * 32767 > 0 /\ Abs((0 - w) * 32767) = (0 - w) * 32767 BY <2>N DEF Abs
    <3>2. ((0 - w) * 32767) \div mx \in Int BY <2>0, <2>N
    <3> QED BY <1>2, <3>1, <3>2 DEF CostOfW, TruncDiv, Sgn
  <2>Z. CostOfW(mx, 0) = 0
    BY <1>2, <2>0 DEF CostOfW, TruncDiv, Sgn, Abs
  <2>1. CASE b > 0
    <3>1. a > 0 /\ a * 32767 \in Nat /\ b * 32767 \in Nat /\ b * 32767 <= a * 32767 BY <2>1
    <3>2. (b * 32767) \div mx <= (a * 32767) \div mx BY <2>0, <3>1, DivMono
    <3>3. (b * 32767) \div mx \in Nat /\ (a * 32767) \div mx \in Nat BY <2>0, <3>1, DivUpper
    <3> QED BY <2>1, <3>1, <3>2, <3>3, <2>P
  <2>2. CASE a < 0
    <3>1. b < 0 /\ (0 - a) * 32767 \in Nat /\ (0 - b) * 32767 \in Nat /\ (0 - a) * 32767 <= (0 - b) * 32767 BY <2>2
    <3>2. ((0 - a) * 32767) \div mx <= ((0 - b) * 32767) \div mx BY <2>0, <3>1, DivMono
    <3>3. ((0 - a) * 32767) \div mx \in Nat /\ ((0 - b) * 32767) \div mx \in Nat BY <2>0, <3>1, DivUpper
    <3> QED BY <2>2, <3>1, <3>2, <3>3, <2>N
  <2>3. CASE a >= 0 /\ b <= 0
    <3>1. CostOfW(mx, a) <= 0
      <4>1. CASE a = 0 BY <4>1, <2>Z
      <4>2. CASE a > 0
        <5>1. a * 32767 \in Nat BY <4>2
        <5>2. (a * 32767) \div mx \in Nat BY <2>0, <5>1, DivUpper
        <5> QED BY <4>2, <5>2, <2>P
      <4> QED BY <2>3, <4>1, <4>2
    <3>2. CostOfW(mx, b) >= 0
      <4>1. CASE b = 0 BY <4>1, <2>Z
      <4>2. CASE b < 0
        <5>1. (0 - b) * 32767 \in Nat BY <4>2
        <5>2. ((0 - b) * 32767) \div mx \in Nat BY <2>0, <5>1, DivUpper
        <5> QED BY <4>2, <5>2, <2>N
      <4> QED BY <2>3, <4>1, <4>2
    <3>3. CostOfW(mx, a) \in Int /\ CostOfW(mx, b) \in Int
      BY <2>0, <2>Z, <2>P, <2>N, <2>3, DivUpper
    <3> QED BY <3>1, <3>2, <3>3
  <2> QED BY <2>1, <2>2, <2>3
<1> QED BY <1>1, <1>2
=============================================================================
