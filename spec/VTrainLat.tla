---------------------------- MODULE VTrainLat ----------------------------
(* Training lattices: what Trainer::new and Trainer::build_lattice hand to the CRF library.

   The trainer owns a dictionary compiled from the SEED lexicon (every row with ids 0,0 and
   cost 0, no user lexicon) and a label provider.  Labels are positive integers:
        seed row i (1-based, file order)             ->  i
        unknown entry with stored id u (0-based)     ->  Len(D.lex) + u + 1
        "virtual" edges (gold tokens that are neither in the lexicon nor compatible with an
         unknown entry) get FRESH labels nlab+1, nlab+2, ... in corpus order
   so the trainer is a state machine over nlab, the number of labels handed out so far.

   D is a dictionary as in VCand (D.lex[i] = [s, f, l, r, c], D.unk[i] = [cat, f, l, r, c],
   D.user = <<>>); here a feature f is the SEQUENCE OF ITS CSV CELLS, so that equal feature
   strings are equal values and compatible_unk_index can look at the cells.

   An example is a sentence s (code points) and its gold tokens toks = sequence of [n, f]
   (n = length in characters; the surfaces concatenate to s by construction of the corpus
   reader).  The lattice is a sequence of edge lists, one per boundary 0..Len(s); the CRF
   library treats the FIRST edge of a node on the gold path as the positive example. *)
EXTENDS VPath

SeedLabel(i) == i
UnkLabel(D, u) == Len(D.lex) + u + 1
InitialLabels(D) == Len(D.lex) + Len(D.unk)

(* label_id_map[(feature string, first character)]: later seed rows overwrite earlier ones.
   The surface of the gold token is NOT compared - only its first character. *)
MapRows(D, f, ch) == {i \in 1..Len(D.lex) : D.lex[i].f = f /\ D.lex[i].s[1] = ch}

(* UnkHandler::compatible_unk_index: the first stored entry of the primary category whose
   cells are "*" or equal to the gold token's cell at the same index *)
CellsCompatible(uc, tc) == \A i \in 1..Len(uc) : uc[i] = "*" \/ (i <= Len(tc) /\ tc[i] = uc[i])
CompatUnk(D, ci, g, b, n, f) ==
   IF ci.group = 1 \/ n <= Min2(ci.length, g)
   THEN LET ok == {UnkId(D, i) : i \in {i \in UnkOfCat(D, b) : CellsCompatible(D.unk[i].f, f)}}
        IN IF ok = {} THEN -1 ELSE SetMin(ok)
   ELSE -1

(* positive edges, in token order; returns the edges and the provider size afterwards *)
RECURSIVE PosEdges(_, _, _, _, _, _, _)
PosEdges(D, s, T, toks, k, pos, nl) ==
   IF k > Len(toks) THEN [edges |-> <<>>, nlab |-> nl]
   ELSE LET tk   == toks[k]
            rows == MapRows(D, tk.f, s[pos + 1])
            b    == T.bt[pos + 1]
            cu   == IF rows # {} THEN -1 ELSE CompatUnk(D, D.cats[b + 1], T.gt[pos + 1], b, tk.n, tk.f)
            virt == rows = {} /\ cu < 0
            lab  == IF rows # {} THEN SeedLabel(SetMax(rows)) ELSE IF cu >= 0 THEN UnkLabel(D, cu) ELSE nl + 1
            rest == PosEdges(D, s, T, toks, k + 1, pos + tk.n, IF virt THEN nl + 1 ELSE nl)
        IN [edges |-> <<[p |-> pos, t |-> pos + tk.n, lab |-> lab]>> \o rest.edges, nlab |-> rest.nlab]

(* negative edges at boundary p: EVERY candidate of the tokenizer's rule (C03) at p, whether or
   not p is reachable, labelled by the entry it names *)
CandLabel(D, c) == IF c.lt = 0 THEN SeedLabel(c.id + 1) ELSE UnkLabel(D, c.id)
NegEdges(D, s, T, mgl, p) == {[t |-> c.e, lab |-> CandLabel(D, c)] : c \in Cands(D, s, p, mgl, T.bt, T.gt)}

(* the expected lattice: per boundary p < Len(s) the positive edge (if a gold token starts
   there) followed by the negative edges that differ from it, in any order, without repeats *)
ExampleOK(D, s, toks) == /\ Len(s) > 0 /\ Len(toks) > 0
                         /\ \A k \in 1..Len(toks) : toks[k].n > 0
                         /\ SumTo([k \in 1..Len(toks) |-> toks[k].n], 1, Len(toks)) = Len(s)

NodeOK(D, s, T, mgl, pos, p, got) ==
   LET P    == {e \in RangeOf(pos) : e.p = p}
       neg  == NegEdges(D, s, T, mgl, p)
       gset == {[t |-> got[i].t, lab |-> got[i].lab] : i \in 1..Len(got)}
   IN /\ Cardinality(gset) = Len(got)                                   \* no edge twice
      /\ IF P = {} THEN gset = neg
         ELSE LET e == CHOOSE e \in P : TRUE  pe == [t |-> e.t, lab |-> e.lab] IN
              /\ Len(got) >= 1 /\ got[1].t = pe.t /\ got[1].lab = pe.lab  \* the gold edge comes first
              /\ gset = neg \cup {pe}

LatticeOK(D, s, T, mgl, pos, nodes) ==
   /\ Len(nodes) = Len(s) + 1
   /\ nodes[Len(s) + 1] = <<>>
   /\ \A p \in 0..(Len(s) - 1) : NodeOK(D, s, T, mgl, pos, p, nodes[p + 1])

(* consequences worth stating on their own (checked by MC_TrainLat over a small scope) *)
GoldPathConnected(s, pos) ==
   /\ pos[1].p = 0 /\ pos[Len(pos)].t = Len(s)
   /\ \A k \in 1..(Len(pos) - 1) : pos[k].t = pos[k + 1].p
LabelsInRange(nodes, nl) == \A p \in 1..Len(nodes) : \A i \in 1..Len(nodes[p]) : nodes[p][i].lab \in 1..nl
=========================================================================
