SPECIFICATION DSpec
CONSTANTS
  Prop = "ALL"
  DevAstralNul = FALSE
  DevStuck = FALSE
POSTCONDITION Accepted
CHECK_DEADLOCK FALSE
