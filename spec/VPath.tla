---------------------------- MODULE VPath ----------------------------
(* Declarative layer of tokenization: chains of candidate words and their optimal cost
   (C01, C02).  Nothing here looks at a lattice.
   O : [isp : BOOLEAN, mgl : Nat]      (mgl = 0: no limit) *)
EXTENDS VCand, VConn

(* sentence tables: [lt, ct, bt, gt] *)
STab(D, s, dev) == LET lt == LineTab(D, s, dev)
                       ct == CatTab(D, s, lt)
                   IN [ct |-> ct, bt |-> BaseTab(D, s, lt), gt |-> GrpTab(ct, Len(s))]

SpaceAt(D, T, e) == D.space >= 0 /\ D.space \in T.ct[e + 1]          \* character after boundary e
(* where the next word starts when a chain has reached boundary e (e < N) *)
NextStart(D, O, s, T, e) == IF O.isp /\ SpaceAt(D, T, e) THEN e + T.gt[e + 1] ELSE e

CandsAt(D, O, s, T, q) == Cands(D, s, q, O.mgl, T.bt, T.gt)

(* ------------------------------------------------------------------
   OptCost: dynamic programme over (boundary, right id).  tab[<<b, r>>] = cheapest cost of
   a chain from the sentence start that ends at boundary b with right id r.
   Boundaries are visited exactly as the scan does (see VLattice): a boundary inside a
   skipped space run is never a start.  Returns the optimal total including the EOS
   connection, or INF if no chain exists. *)
Row(tab, nr, b) == {<<r, tab[<<b, r>>]>> : r \in {r \in 0..(nr - 1) : tab[<<b, r>>] # INF}}

RECURSIVE OptScan(_, _, _, _, _, _, _)
OptScan(D, O, s, T, sw, tab, stuck) ==
   LET N == Len(s)  sn == sw IN
   IF sw >= N THEN [at |-> N, tab |-> tab, stuck |-> stuck]
   ELSE LET base == TLCEval(Row(tab, D.nr, sn)) IN
        IF base = {} THEN OptScan(D, O, s, T, sw + 1, tab, stuck)
        ELSE LET q == NextStart(D, O, s, T, sn) IN
             IF q = N THEN [at |-> sn, tab |-> tab, stuck |-> stuck]
             ELSE LET cs == TLCEval(CandsAt(D, O, s, T, q))
                      into(w) == SetMin({x[2] + Conn(D, x[1], w.l) : x \in base}) + w.c
                      newtab == [br \in (0..N) \X (0..(D.nr - 1)) |->
                                   LET ws == {w \in cs : w.e = br[1] /\ w.r = br[2]} IN
                                   IF ws = {} THEN tab[br] ELSE Min2(tab[br], SetMin({into(w) : w \in ws}))]
                  IN OptScan(D, O, s, T, q + 1, TLCEval(newtab), stuck \/ cs = {})

OptRun(D, O, s, T) ==
   LET N == Len(s)
       t0 == TLCEval([br \in (0..N) \X (0..(D.nr - 1)) |-> IF br = <<0, 0>> THEN 0 ELSE INF])
   IN OptScan(D, O, s, T, 0, t0, FALSE)

OptCost(D, O, s, T) ==
   LET fin == OptRun(D, O, s, T)
       last == Row(fin.tab, D.nr, fin.at)
   IN IF last = {} THEN INF ELSE SetMin({x[2] + Conn(D, x[1], 0) : x \in last})

(* named deviation Stuck (F12): the scan reaches a start position without any candidate
   (its primary category has no unknown entry and no lexicon entry matches), or ends at a
   boundary nothing reaches; the pinned code panics there *)
ScanStuck(D, O, s, T) ==
   LET fin == OptRun(D, O, s, T) IN fin.stuck \/ Row(fin.tab, D.nr, fin.at) = {}

(* ------------------------------------------------------------------
   A reported token list, toks : Seq([b, e, lt, id, l, r, c, tot]).
   ChainOK: each token is a candidate at its start; starts follow the scan rule;
   the end of the chain reaches N (possibly through a final space run);
   tot is the accumulated cost (PrefixCost). *)
RECURSIVE ChainOK(_, _, _, _, _, _, _, _)
ChainOK(D, O, s, T, toks, i, prevE, prevR) ==
   LET N == Len(s) IN
   IF i > Len(toks) THEN (prevE = N \/ (prevE < N /\ NextStart(D, O, s, T, prevE) = N))
   ELSE LET t == toks[i] IN
        /\ prevE < N
        /\ t.b = NextStart(D, O, s, T, prevE)
        /\ [e |-> t.e, lt |-> t.lt, id |-> t.id, l |-> t.l, r |-> t.r, c |-> t.c] \in CandsAt(D, O, s, T, t.b)
        /\ ChainOK(D, O, s, T, toks, i + 1, t.e, t.r)

PrefixCostOK(D, toks) ==
   \A i \in 1..Len(toks) :
      toks[i].tot = (IF i = 1 THEN 0 ELSE toks[i - 1].tot)
                    + Conn(D, IF i = 1 THEN 0 ELSE toks[i - 1].r, toks[i].l) + toks[i].c

ChainTotal(D, toks) == IF Len(toks) = 0 THEN Conn(D, 0, 0)
                       ELSE toks[Len(toks)].tot + Conn(D, toks[Len(toks)].r, 0)

(* ------------------------------------------------------------------
   Partition clauses of C01 on a token list with ranges only. *)
PartitionOK(D, O, s, T, toks) ==
   LET N == Len(s)  n == Len(toks) IN
   /\ \A i \in 1..n : 0 <= toks[i].b /\ toks[i].b < toks[i].e /\ toks[i].e <= N
   /\ \A i \in 1..(n - 1) : toks[i].e <= toks[i + 1].b
   /\ (N = 0 => n = 0)
   /\ (~O.isp /\ N > 0 => /\ n > 0 /\ toks[1].b = 0 /\ toks[n].e = N
                          /\ \A i \in 1..(n - 1) : toks[i].e = toks[i + 1].b)
   /\ (O.isp /\ N > 0 =>
         /\ (n = 0 => SpaceAt(D, T, 0))
         /\ (n > 0 => /\ (toks[1].b > 0 => SpaceAt(D, T, 0))
                      /\ (toks[n].e < N => SpaceAt(D, T, toks[n].e)))
         /\ \A i \in 1..(n - 1) : toks[i].e < toks[i + 1].b => SpaceAt(D, T, toks[i].e))

(* the surface/byte/feature clauses of C01 for one reported token
   tk : [b, e, bb, be, surf, lt, id, l, r, c, f] *)
TokenFieldsOK(D, s, tk) ==
   /\ tk.bb = BytePos(s, tk.b) /\ tk.be = BytePos(s, tk.e)
   /\ tk.surf = Slice(s, tk.b, tk.e)
   /\ tk.id >= 0 /\ EntryExists(D, tk.lt, tk.id)
   /\ tk.f = EntryFeature(D, tk.lt, tk.id)
   /\ tk.c = EntryCost(D, tk.lt, tk.id)
   /\ tk.l = EntryL(D, tk.lt, tk.id) /\ tk.r = EntryR(D, tk.lt, tk.id)

(* ------------------------------------------------------------------
   Precondition of C12 on an alphabet: space characters belong to SPACE alone, no other
   character is in SPACE, and no lexicon surface contains a space character. *)
IsSpaceCh(D, ch) == D.space >= 0 /\ D.space \in CatSet(D, ch)
SpaceIsolated(D, chars) ==
   /\ \A ch \in chars : IsSpaceCh(D, ch) => CatSet(D, ch) = {D.space}
   /\ \A i \in 1..Len(D.lex) : \A k \in 1..Len(D.lex[i].s) : ~IsSpaceCh(D, D.lex[i].s[k])
   /\ \A i \in 1..Len(D.user) : \A k \in 1..Len(D.user[i].s) : ~IsSpaceCh(D, D.user[i].s[k])
=======================================================================
