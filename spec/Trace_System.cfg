SPECIFICATION Spec
CONSTANTS
  Prop = "ALL"
POSTCONDITION Accepted
CHECK_DEADLOCK FALSE
