SPECIFICATION Spec
CONSTANTS
  KMax = 3
INVARIANTS Rounding Monotone Range16 MergeOK
CHECK_DEADLOCK FALSE
