(* automatically generated -- do not edit manually *)
theory VUnkRule_proofs imports Constant Zenon begin
ML_command \<open> writeln ("*** TLAPS PARSED\n"); \<close>
consts
  "isReal" :: c
  "isa_slas_a" :: "[c,c] => c"
  "isa_bksl_diva" :: "[c,c] => c"
  "isa_perc_a" :: "[c,c] => c"
  "isa_peri_peri_a" :: "[c,c] => c"
  "isInfinity" :: c
  "isa_lbrk_rbrk_a" :: "[c] => c"
  "isa_less_more_a" :: "[c] => c"

end
