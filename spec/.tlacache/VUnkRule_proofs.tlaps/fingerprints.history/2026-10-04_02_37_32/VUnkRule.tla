---------------------------- MODULE VUnkRule ----------------------------
(* The MeCab-style unknown-word rule (C03), on its own: pure integer / set operators and no
   RECURSIVE definitions, so that both TLC (through VBase -> VChar -> VCand) and the TLA+ proof
   system (VUnkRule_proofs) work on the same text.
     ci       : [invoke, group, length] of the first character's primary category
     g        : length of the run of category-sharing characters starting at the position (>= 1)
     p        : the start position (0-based boundary); ends are boundaries p+1 .. p+g
     matched  : a lexicon entry matched at p
     mgl      : max_grouping_len, 0 = unlimited *)
EXTENDS Integers

Min2(a, b) == IF a < b THEN a ELSE b

(* ---- unknown-word ends, code-shaped (UnkHandler::gen_unk_words) ---- *)
UnkEnds(ci, g, p, n, matched, mgl) ==
   IF matched /\ ci.invoke = 0 THEN {}
   ELSE LET grp  == IF ci.group = 1 /\ (mgl = 0 \/ g - 1 <= mgl) THEN {p + g} ELSE {}
            lens == {p + i : i \in {i \in 1..Min2(ci.length, g) : ~(ci.group = 1 /\ i = g)}}
        IN IF grp \cup lens = {} /\ ~matched THEN {p + 1} ELSE grp \cup lens

(* ---- the same rule, written after the sentence of property C03 ---- *)
UnkEndsDecl(ci, g, p, n, matched, mgl) ==
   LET none    == matched /\ ci.invoke = 0
       runOK   == ci.group = 1 /\ ~(mgl # 0 /\ g > mgl + 1)
       run     == IF runOK THEN {p + g} ELSE {}
       prefs   == {p + k : k \in {k \in 1..g : k <= ci.length /\ ~(ci.group = 1 /\ k = g)}}
       some    == run \cup prefs
   IN IF none THEN {}
      ELSE IF some # {} THEN some
      ELSE IF matched THEN {} ELSE {p + 1}
=========================================================================
