---------------------------- MODULE Gen_Template ----------------------------
(* C18, specification -> implementation: template sets from a pool (plain, optional, %t,
   two references, shared literal prefix) x all row sequences up to MaxRows over short
   feature lists containing '*' and absent positions. *)
EXTENDS VTemplate, Json
CONSTANTS MaxRows

Lit(v) == [k |-> "lit", v |-> v]
Ref(i) == [k |-> "ref", i |-> i]
Opt(i) == [k |-> "opt", i |-> i]
Pool == << <<Lit("p:"), Ref(0)>>, <<Lit("p:"), Opt(1)>>, <<Lit("q:"), Ref(0), Lit(","), Opt(1)>>,
           <<Lit("p:"), Ref(1)>>, <<Lit("t:"), [k |-> "type"], Lit("/"), Ref(0)>> >>
UniSets == { <<Pool[1]>>, <<Pool[1], Pool[2]>>, <<Pool[5], Pool[3]>>, <<Pool[4], Pool[1]>> }
BiSets == { [left |-> <<Pool[1]>>, right |-> <<Pool[2]>>], [left |-> <<Pool[3], Pool[4]>>, right |-> <<Pool[1], Pool[1]>>] }
FeatLists == { <<>>, <<"a">>, <<"*">>, <<"a", "b">>, <<"*", "b">>, <<"b", "*">> }
RowSet == [kind : 0..2, feats : FeatLists, cate : {0, 3}]

VARIABLES T, rows
Init == /\ T \in {[uni |-> u, left |-> b.left, right |-> b.right] : u \in UniSets, b \in BiSets}
        /\ rows \in UNION {[1..n -> RowSet] : n \in 1..1}
Next == /\ Len(rows) < MaxRows /\ \E r \in RowSet : rows' = Append(rows, r) /\ UNCHANGED T
Spec == Init /\ [][Next]_<<T, rows>>

(* interning is a function and injective on every generated behaviour *)
Sound == LET x == Intern(T, rows) IN
         \A w \in {"uni", "left", "right"} : \A i, j \in 1..Len(x.tabs[w]) : x.tabs[w][i] = x.tabs[w][j] => i = j
Emit == Len(rows) = MaxRows => PrintT(<<"GEN", ToJson([T |-> T, rows |-> rows])>>)
=============================================================================
