SPECIFICATION Spec
INVARIANTS Emit BaseValid
CHECK_DEADLOCK FALSE
