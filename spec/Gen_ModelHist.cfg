SPECIFICATION Spec
CONSTANTS
  Depth = 5
INVARIANTS Comparable DiskBehind Emit
CHECK_DEADLOCK FALSE
