SPECIFICATION Spec
CONSTANTS
  MaxRows = 2
INVARIANTS Sound Emit
CHECK_DEADLOCK FALSE
