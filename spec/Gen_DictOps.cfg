SPECIFICATION Spec
CONSTANTS
  Depth = 3
INVARIANTS MapInvariant UserAsSystem Emit
CHECK_DEADLOCK FALSE
