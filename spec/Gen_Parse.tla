---------------------------- MODULE Gen_Parse ----------------------------
(* Behaviour generator for C10: all single edits (and, in thorough mode, pairs of edits) of a
   small valid file set, each with the class the specification assigns to the result. *)
EXTENDS VParse, Json
CONSTANTS Double          \* TRUE: also all pairs of edits on different files

BaseF == [ char   |-> << <<"DEFAULT", "0", "1", "0">>, <<"SPACE", "0", "1", "0">>, <<"ALPHA", "1", "1", "2">>,
                         <<"0x0020", "SPACE">>, <<"0x0061..0x007A", "ALPHA", "DEFAULT", "#", "letters">> >>,
           matrix |-> << <<"2", "2">>, <<"0", "0", "0">>, <<"0", "1", "1">>, <<"1", "0", "-2">>, <<"1", "1", "3">> >>,
           lex    |-> << <<"a", "0", "1", "5", "N", "x">>, <<"ab", "1", "0", "-3", "V">> >>,
           unk    |-> << <<"DEFAULT", "0", "0", "10", "u">>, <<"SPACE", "1", "1", "2", "s">>, <<"ALPHA", "0", "1", "4", "al">> >> ]
Files == {"char", "matrix", "lex", "unk"}
Pool == {"-1", "2", "16", "255", "256", "32768", "65535", "65536", "99999999999", "x", "", "UNDEF", "0x10000",
         "0x0041..0x0040", "#", "DEFAULT", "0x3042..0x3043"}

DropAt(q, i) == SubSeq(q, 1, i - 1) \o SubSeq(q, i + 1, Len(q))
InsertAt(q, i, x) == SubSeq(q, 1, i - 1) \o <<x>> \o SubSeq(q, i, Len(q))
Edits == {[f |-> f, op |-> "none", i |-> 0, k |-> 0, v |-> ""] : f \in {"char"}}
   \cup {[f |-> f, op |-> "empty", i |-> 0, k |-> 0, v |-> ""] : f \in Files}
   \cup UNION {{[f |-> f, op |-> o, i |-> i, k |-> 0, v |-> ""] : i \in 1..Len(BaseF[f]), o \in {"dropline", "dupline", "cutafter"}} : f \in Files}
   \cup UNION {UNION {{[f |-> f, op |-> "droptok", i |-> i, k |-> k, v |-> ""] : k \in 1..Len(BaseF[f][i])} : i \in 1..Len(BaseF[f])} : f \in Files}
   \cup UNION {UNION {{[f |-> f, op |-> o, i |-> i, k |-> k, v |-> v] : k \in 1..Len(BaseF[f][i]), v \in Pool, o \in {"settok"}} : i \in 1..Len(BaseF[f])} : f \in Files}
   \cup UNION {{[f |-> f, op |-> "addtok", i |-> i, k |-> 0, v |-> v] : i \in 1..Len(BaseF[f]), v \in {"7", "x", ""}} : f \in Files}
   \cup {[f |-> "char", op |-> "manycats", i |-> n, k |-> 0, v |-> ""] : n \in {15, 16}}

Apply(F, e) ==
   LET q == F[e.f] IN
   CASE e.op = "none" -> F
     [] e.op = "empty" -> [F EXCEPT ![e.f] = <<>>]
     [] e.op = "dropline" -> [F EXCEPT ![e.f] = DropAt(q, e.i)]
     [] e.op = "dupline" -> [F EXCEPT ![e.f] = InsertAt(q, e.i, q[e.i])]
     [] e.op = "cutafter" -> [F EXCEPT ![e.f] = SubSeq(q, 1, e.i)]
     [] e.op = "droptok" -> [F EXCEPT ![e.f][e.i] = DropAt(q[e.i], e.k)]
     [] e.op = "settok" -> [F EXCEPT ![e.f][e.i][e.k] = e.v]
     [] e.op = "addtok" -> [F EXCEPT ![e.f][e.i] = Append(q[e.i], e.v)]
     [] e.op = "manycats" -> [F EXCEPT !.char = [n \in 1..e.i |-> <<"K" \o ToString(n), "0", "0", "1">>] \o q]

VARIABLES e1, e2
Init == /\ e1 \in Edits
        /\ e2 \in IF Double THEN {x \in Edits : x.f # e1.f /\ x.op \in {"settok", "droptok", "dropline"}} \cup {[f |-> "char", op |-> "none", i |-> 0, k |-> 0, v |-> ""]}
                  ELSE {[f |-> "char", op |-> "none", i |-> 0, k |-> 0, v |-> ""]}
Next == UNCHANGED <<e1, e2>>
Spec == Init /\ [][Next]_<<e1, e2>>

Result == Apply(Apply(BaseF, e1), e2)
(* the no-final-newline variant is rendered when the edit is a cut *)
Case == [files |-> Result, class |-> Class(Result, BaseF), nofinal |-> e1.op = "cutafter", edit |-> e1, edit2 |-> e2]
Emit == PrintT(<<"GEN", ToJson(Case)>>)
(* sanity of the classification itself *)
BaseValid == ~MustErr(BaseF) /\ ~MissingUnk(BaseF) /\ CharWellFormed(BaseF) /\ MatrixHeaderOK(BaseF)
==========================================================================
