---------------------------- MODULE VCand ----------------------------
(* Candidate words at a start position (C03).
   D.lex / D.user : sequences of [s, l, r, c, f]  (word id = index - 1)
   D.unk          : sequence of [cat, l, r, c, f] in unk.def FILE order; the stored order
                    (and therefore the word id) is the stable sort by category id.
   A candidate is [e, lt, id, l, r, c] with lt 0 = system, 1 = user, 2 = unknown. *)
EXTENDS VChar

(* stored id of the unk.def entry written at file position i *)
UnkId(D, i) == Cardinality({j \in 1..Len(D.unk) : D.unk[j].cat < D.unk[i].cat})
             + Cardinality({j \in 1..(i - 1) : D.unk[j].cat = D.unk[i].cat})
UnkOfCat(D, b) == {i \in 1..Len(D.unk) : D.unk[i].cat = b}

LexCandsOf(L, lt, s, p) ==
   {[e |-> p + Len(L[i].s), lt |-> lt, id |-> i - 1, l |-> L[i].l, r |-> L[i].r, c |-> L[i].c] :
       i \in {i \in 1..Len(L) : IsPrefixAt(L[i].s, s, p)}}
LexCands(D, s, p) == LexCandsOf(D.lex, 0, s, p) \cup LexCandsOf(D.user, 1, s, p)

(* the unknown-word rule itself (UnkEnds, UnkEndsDecl) lives in VUnkRule, a module without
   RECURSIVE operators, so that TLAPS can prove facts about the very definitions used here *)

Cands(D, s, p, mgl, bt, gt) ==
   LET lc == LexCands(D, s, p)
       b  == bt[p + 1]
       ue == UnkEnds(D.cats[b + 1], gt[p + 1], p, Len(s), lc # {}, mgl)
   IN lc \cup {[e |-> e, lt |-> 2, id |-> UnkId(D, i), l |-> D.unk[i].l, r |-> D.unk[i].r, c |-> D.unk[i].c] :
                 e \in ue, i \in UnkOfCat(D, b)}

(* the dictionary entry a (lt, id) pair names *)
UnkByStoredId(D, id) == CHOOSE i \in 1..Len(D.unk) : UnkId(D, i) = id
EntryFeature(D, lt, id) == IF lt = 0 THEN D.lex[id + 1].f
                           ELSE IF lt = 1 THEN D.user[id + 1].f
                           ELSE D.unk[UnkByStoredId(D, id)].f
EntryCost(D, lt, id) == IF lt = 0 THEN D.lex[id + 1].c
                        ELSE IF lt = 1 THEN D.user[id + 1].c
                        ELSE D.unk[UnkByStoredId(D, id)].c

EntryL(D, lt, id) == IF lt = 0 THEN D.lex[id + 1].l ELSE IF lt = 1 THEN D.user[id + 1].l ELSE D.unk[UnkByStoredId(D, id)].l
EntryR(D, lt, id) == IF lt = 0 THEN D.lex[id + 1].r ELSE IF lt = 1 THEN D.user[id + 1].r ELSE D.unk[UnkByStoredId(D, id)].r
EntryExists(D, lt, id) == IF lt = 0 THEN id + 1 <= Len(D.lex) ELSE IF lt = 1 THEN id + 1 <= Len(D.user) ELSE id + 1 <= Len(D.unk)

(* every category that is primary for some character of s has an unknown entry *)
UnkComplete(D, s, bt) == \A i \in 1..Len(s) : UnkOfCat(D, bt[i]) # {}
=======================================================================
