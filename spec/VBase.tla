---------------------------- MODULE VBase ----------------------------
(* Shared helpers of the vibrato specification.  Pure operators only. *)
EXTENDS Integers, Sequences, FiniteSets, TLC, VUnkRule

INF == 1000000000

Max2(a, b) == IF a > b THEN a ELSE b
SetMin(S) == CHOOSE x \in S : \A y \in S : x <= y
SetMax(S) == CHOOSE x \in S : \A y \in S : x >= y
RangeOf(q) == {q[i] : i \in 1..Len(q)}

(* UTF-8 length of a code point *)
Utf8Len(cp) == IF cp < 128 THEN 1 ELSE IF cp < 2048 THEN 2 ELSE IF cp < 65536 THEN 3 ELSE 4

RECURSIVE SumTo(_, _, _)
SumTo(f, i, n) == IF i > n THEN 0 ELSE f[i] + SumTo(f, i + 1, n)
SumSeq(q) == SumTo(q, 1, Len(q))

(* byte offset of the 0-based character boundary b in sentence s *)
BytePos(s, b) == SumTo([i \in 1..Len(s) |-> Utf8Len(s[i])], 1, b)

Slice(s, b, e) == SubSeq(s, b + 1, e)          \* characters [b, e) of s, 0-based boundaries

IsPrefixAt(w, s, p) == /\ p + Len(w) <= Len(s)
                       /\ \A k \in 1..Len(w) : s[p + k] = w[k]

SeqsUpTo(S, n) == UNION {[1..k -> S] : k \in 0..n}
=======================================================================
