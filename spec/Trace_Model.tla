---------------------------- MODULE Trace_Model ----------------------------
(* Trace validation of training sessions (C14 C15 C16 C18).
   tsession : the abstract training configuration (seed rows as cells, templates, rules)
   model    : the trained model with integer-quantised weights (hook H6)
   gen      : one run of write_dictionary + write_bigram_details on the in-memory model
              ("mem") or on a copy that went through write_model/read_model ("disk"): the
              compiled projection of the emitted files, the bigram files, the connector
              tables of the small (raw / dual) dictionaries, and hashes of every output
   wr       : write_model; read_model  (the reloaded copy continues the history)
   adduser  : read_user_lexicon on both copies *)
EXTENDS VModel, VRewrite, VTemplate, VChar, Json, IOUtils, TLCExt
CONSTANTS Prop, DevStarCollision, DevMergeNoBigram, DevDualClamp

Rec == ndJsonDeserialize(IOEnv.TRACE)
VARIABLES l, tin, m, M, mext,       \* inputs, model, merged model, and the extension history the model event belongs to
          ext, users, hasDisk,      \* per copy ("mem", "disk"): sequence of add-user operations applied / rows currently held
          memo                      \* outputs seen: <<kind, key, hash>>
vars == <<l, tin, m, M, mext, ext, users, hasDisk, memo>>
E == Rec[l]
Is(e) == l <= Len(Rec) /\ E.ev = e /\ l' = l + 1
On(p) == Prop = "ALL" \/ Prop = p
A(p, n, x) == IF ~On(p) THEN TRUE ELSE IF x THEN TRUE ELSE Print(<<"FAILED-CLAUSE", p, n, l>>, FALSE)
AnyA(ps, n, x) == IF ~(Prop = "ALL" \/ Prop \in ps) THEN TRUE ELSE IF x THEN TRUE ELSE Print(<<"FAILED-CLAUSE", Prop, n, l>>, FALSE)

Init == /\ l = 1 /\ tin = <<>> /\ m = <<>> /\ M = <<>> /\ mext = <<>>
        /\ ext = [mem |-> <<>>, disk |-> <<>>] /\ users = [mem |-> <<>>, disk |-> <<>>] /\ hasDisk = FALSE /\ memo = {}

TSession == /\ Is("tsession") /\ tin' = E.in
            /\ m' = <<>> /\ M' = <<>> /\ mext' = <<>>
            /\ ext' = [mem |-> <<>>, disk |-> <<>>] /\ users' = [mem |-> <<>>, disk |-> <<>>] /\ hasDisk' = FALSE /\ memo' = {}

(* After training the trainer drops the feature strings that carry no weight, and ONLY those: a
   string that keeps a weight must keep its name, otherwise a later user row with the same
   expansion is interned under a new, weightless id (it would neither receive the trained
   parameters - C14 - nor the id of the equal string - C18).  Checked on the model as trained,
   before any user lexicon is added. *)
Named(map, id) == \E k \in 1..Len(map) : map[k].id = id
UsedRight(mm) == UNION {{mm.bwi[a][k][1] : k \in 1..Len(mm.bwi[a])} : a \in 1..Len(mm.bwi)}
PruneOK(mm) ==
   /\ \A id \in 1..Len(mm.uwi) : (mm.uwi[id] # 0) <=> Named(mm.umap, id)
   /\ \A k \in 1..Len(mm.umap) : mm.umap[k].id <= Len(mm.uwi)
   /\ \A a \in 1..(Len(mm.bwi) - 1) : (mm.bwi[a + 1] # <<>>) <=> Named(mm.lmap, a)
   /\ \A b \in UsedRight(mm) \ {0} : Named(mm.rmap, b)
   /\ \A k \in 1..Len(mm.rmap) : mm.rmap[k].id \in UsedRight(mm)

ModelEv == /\ Is("model") /\ m' = E.m /\ M' = TLCEval(Merged(E.m)) /\ mext' = ext.mem
           /\ (ext.mem = <<>> => AnyA({"C14", "C18"}, "weighted-feature-strings-keep-their-names", PruneOK(E.m)))
           /\ UNCHANGED <<tin, ext, users, hasDisk, memo>>

WR == /\ Is("wr")
      /\ A("C15", "written-model-reads-back", E.ok)
      /\ ext' = [ext EXCEPT !.disk = IF hasDisk THEN ext.disk ELSE ext.mem]
      /\ users' = [users EXCEPT !.disk = <<>>]          \* read_model starts without user entries
      /\ hasDisk' = TRUE
      /\ UNCHANGED <<tin, m, M, mext, memo>>

AddUser == /\ Is("adduser")
           /\ A("C14", "user-lexicon-accepted", E.ok /\ E.disk_ok)
           /\ ext' = [mem |-> Append(ext.mem, E.rows), disk |-> IF hasDisk THEN Append(ext.disk, E.rows) ELSE ext.disk]
           /\ users' = [mem |-> users.mem \o E.rows, disk |-> IF hasDisk THEN users.disk \o E.rows ELSE users.disk]
           /\ UNCHANGED <<tin, m, M, mext, hasDisk, memo>>

(* ---------------- C14: the generated files are the image of the model ---------------- *)
CatSorted(rows) ==      \* stable sort of the seed unknown entries by category = stored order
   LET n == Len(rows)
       pos(i) == Cardinality({j \in 1..n : rows[j].cat < rows[i].cat}) + Cardinality({j \in 1..(i - 1) : rows[j].cat = rows[i].cat}) + 1
   IN [k \in 1..n |-> rows[CHOOSE i \in 1..n : pos(i) = k]]
C14Lex(p) ==
   /\ Len(p.lex) = m.nseed /\ m.nseed = Len(tin.seed)
   /\ \A i \in 1..m.nseed :
        /\ p.lex[i].l = M.lid[i] /\ p.lex[i].r = M.rid[i]
        /\ CostOK(M, p.lex[i].c, M.lw[i])
        /\ p.lex[i].f = tin.seed[i].ftext
C14Unk(p) ==
   LET su == CatSorted(tin.unk) IN
   /\ Len(p.unk) = m.nunk /\ m.nunk = Len(tin.unk)
   /\ \A k \in 1..m.nunk :
        /\ p.unk[k].cat = su[k].cat /\ p.unk[k].f = su[k].ftext
        /\ p.unk[k].l = M.lid[m.nseed + k] /\ p.unk[k].r = M.rid[m.nseed + k]
        /\ CostOK(M, p.unk[k].c, M.lw[m.nseed + k])
C14Matrix(p) ==
   /\ p.nr = M.nr /\ p.nl = M.nl
   /\ \A x \in 1..(M.nr * M.nl) : CostOK(M, p.mat[x], M.cells[x])
C14Ids(p) == \A ws \in {p.lex, p.unk, p.user} : \A i \in 1..Len(ws) : ws[i].l < p.nl /\ ws[i].r < p.nr
C14Costs16(p) == /\ \A ws \in {p.lex, p.unk} : \A i \in 1..Len(ws) : ws[i].c >= -32767 /\ ws[i].c <= 32767
                 /\ \A x \in 1..Len(p.mat) : p.mat[x] >= -32767 /\ p.mat[x] <= 32767
C14User(p, us) ==
   /\ Len(p.user) = Len(us) /\ Len(us) = Len(m.userlabels)
   /\ \A k \in 1..Len(us) :
        /\ p.user[k].f = us[k].ftext
        /\ IF us[k].l = 0 /\ us[k].r = 0 /\ us[k].c = 0
           THEN LET lab == m.userlabels[k] IN
                p.user[k].l = M.lid[lab] /\ p.user[k].r = M.rid[lab] /\ CostOK(M, p.user[k].c, M.lw[lab])
           ELSE p.user[k].l = us[k].l /\ p.user[k].r = us[k].r /\ p.user[k].c = us[k].c

(* ---------------- C16 / C18: the bigram files ---------------- *)
K == Len(tin.T.left)
BgRowsOK(bg) ==
   /\ Len(bg.R) = Len(M.rc) /\ \A i \in 1..Len(M.rc) : bg.R[i] = RowText(m.lmap, M.rc[i])
   /\ Len(bg.L) = Len(M.lc) /\ \A j \in 1..Len(M.lc) : bg.L[j] = RowText(m.rmap, M.lc[j])
BgCostOK(bg) ==
   LET want == CostLines(m) IN
   /\ Len(bg.cost) = Cardinality(want)
   /\ \A i \in 1..Len(bg.cost) : \E w \in want : w.rf = bg.cost[i].rf /\ w.lf = bg.cost[i].lf /\ CostOK(M, bg.cost[i].c, w.w)
(* F21 (known finding): '*' is both the placeholder of a pruned / absent feature and a possible real
   expansion; once bigram.cost lists a pair with the text '*', the connector applies it to placeholders *)
StarListed(bg) == \E i \in 1..Len(bg.cost) : bg.cost[i].rf = "*" \/ bg.cost[i].lf = "*"
SmallAgrees(p, sm) ==
   /\ "mat" \in DOMAIN sm
   /\ sm.nr = p.nr /\ sm.nl = p.nl
   /\ \A x \in 1..Len(p.mat) : Abs(sm.mat[x] - p.mat[x]) <= K + 1

(* F27 (known finding): the dual connector keeps the costs of K - 8 templates pre-summed in a
   16-bit matrix and CLAMPS that partial sum (C07 says so: "whenever the pre-summed part fits in
   16 bits").  Which templates go there is decided by a greedy search whose ties are broken in
   hash order, so it is not logged; the deviation applies to a cell when SOME choice of K - 8
   templates has a partial sum outside 16 bits.  The raw connector is never excused. *)
BgFeatAt(rows, id, k) == IF id = 0 THEN "" ELSE IF k <= Len(rows[id]) THEN rows[id][k] ELSE "*"
LineCost(bg, rf, lf) ==
   IF rf = "*" \/ lf = "*" THEN 0
   ELSE LET S == {n \in 1..Len(bg.cost) : bg.cost[n].rf = rf /\ bg.cost[n].lf = lf} IN
        IF S = {} THEN 0 ELSE bg.cost[CHOOSE n \in S : TRUE].c
CellCosts(bg, i, j) == [k \in 1..K |-> LineCost(bg, BgFeatAt(bg.R, i, k), BgFeatAt(bg.L, j, k))]
(* sum of the n largest entries of a sequence of integers *)
RECURSIVE TopSum(_, _, _)
TopSum(cs, idx, n) == IF n = 0 \/ idx = {} THEN 0
                      ELSE LET best == CHOOSE a \in idx : \A b \in idx : cs[a] >= cs[b] IN
                           cs[best] + TopSum(cs, idx \ {best}, n - 1)
MayClamp(bg, i, j) ==
   K > 8 /\ LET cs == CellCosts(bg, i, j)  neg == [k \in 1..K |-> 0 - cs[k]] IN
            \/ TopSum(cs, 1..K, K - 8) > 32767
            \/ TopSum(neg, 1..K, K - 8) > 32768
DualAgrees(p, sm, bg) ==
   /\ "mat" \in DOMAIN sm
   /\ sm.nr = p.nr /\ sm.nl = p.nl
   /\ \A x \in 1..Len(p.mat) :
        \/ Abs(sm.mat[x] - p.mat[x]) <= K + 1
        \/ (DevDualClamp /\ MayClamp(bg, (x - 1) % p.nr, (x - 1) \div p.nr))

(* C18: the tuple printed for a word's connection id is the expansion of its rewritten
   features, position by position, except '*' where training dropped the feature *)
Cells(row, rules) == Rewrite(rules, row.cells).out
ExpTuple(tpls, cells) == [k \in 1..Len(tpls) |-> LET e == Expand(tpls[k], cells, 0) IN IF e.some THEN e.s ELSE "*"]
RowMatches(printed, want) == Len(printed) = Len(want) /\ \A k \in 1..Len(want) : printed[k] = want[k] \/ printed[k] = "*"
C18Classes(bg, p) ==
   /\ Len(p.lex) = m.nseed /\ Len(tin.seed) = m.nseed
   /\ \A i \in 1..m.nseed :
        /\ p.lex[i].r \in 1..Len(bg.R) /\ p.lex[i].l \in 1..Len(bg.L)
        /\ RowMatches(bg.R[p.lex[i].r], ExpTuple(tin.T.left, Cells(tin.seed[i], tin.rules.left)))
        /\ RowMatches(bg.L[p.lex[i].l], ExpTuple(tin.T.right, Cells(tin.seed[i], tin.rules.right)))
   /\ \A i, j \in 1..m.nseed :
        /\ ExpTuple(tin.T.left, Cells(tin.seed[i], tin.rules.left)) = ExpTuple(tin.T.left, Cells(tin.seed[j], tin.rules.left))
              => p.lex[i].r = p.lex[j].r
        /\ ExpTuple(tin.T.right, Cells(tin.seed[i], tin.rules.right)) = ExpTuple(tin.T.right, Cells(tin.seed[j], tin.rules.right))
              => p.lex[i].l = p.lex[j].l

(* the same for the unknown entries, and for user rows that were given as 0,0,0 (they receive
   the model's classes): their tuples are the expansions of THEIR rewritten features, and a
   user row whose tuples coincide with a seed row's shares that row's connection ids *)
C18Unk(bg, p) ==
   LET su == CatSorted(tin.unk) IN
   Len(p.unk) = Len(su) =>
   \A k \in 1..Len(su) :
      /\ p.unk[k].r \in 1..Len(bg.R) /\ p.unk[k].l \in 1..Len(bg.L)
      /\ RowMatches(bg.R[p.unk[k].r], ExpTuple(tin.T.left, Cells(su[k], tin.rules.left)))
      /\ RowMatches(bg.L[p.unk[k].l], ExpTuple(tin.T.right, Cells(su[k], tin.rules.right)))
      /\ \A i \in 1..m.nseed :
           /\ ExpTuple(tin.T.left, Cells(su[k], tin.rules.left)) = ExpTuple(tin.T.left, Cells(tin.seed[i], tin.rules.left))
                 => p.unk[k].r = p.lex[i].r
           /\ ExpTuple(tin.T.right, Cells(su[k], tin.rules.right)) = ExpTuple(tin.T.right, Cells(tin.seed[i], tin.rules.right))
                 => p.unk[k].l = p.lex[i].l
(* user rows are interned AFTER training has pruned unused strings, so a user row whose tuples
   coincide with a seed row's need not share its class (a pruned string gets a new id; the two
   classes then differ in zero-weight features only).  What must hold: the feature ids of a user
   row NAME the expansions of its own section-wise rewritten features. *)
IdsNameExpansions(ids, map, tpls, cells) ==
   /\ Len(ids) = Len(tpls)
   /\ \A j \in 1..Len(tpls) :
        LET e == Expand(tpls[j], cells, 0) IN
        IF e.some THEN ids[j] # 0 /\ NameOf(map, ids[j]) = e.s ELSE ids[j] = 0
(* unigram side: only produced features are listed; %t is the primary category of the surface's first character *)
CateOfSurface(surf) == LET D == [cats |-> tin.cats, ranges |-> tin.ranges] IN
                       IF surf[1] > 65535 THEN 0 ELSE LET ln == LastCover(D, surf[1], Len(D.ranges)) IN IF ln = 0 THEN 0 ELSE D.ranges[ln].cs[1]
RECURSIVE UniNames(_, _, _, _)
UniNames(tpls, cells, cate, j) ==
   IF j > Len(tpls) THEN <<>>
   ELSE LET e == Expand(tpls[j], cells, cate) IN
        (IF e.some THEN <<e.s>> ELSE <<>>) \o UniNames(tpls, cells, cate, j + 1)
UniIdsNameExpansions(ids, map, tpls, cells, cate) ==
   LET want == UniNames(tpls, cells, cate, 1) IN
   /\ Len(ids) = Len(want)
   /\ \A j \in 1..Len(want) : NameOf(map, ids[j]) = want[j]
(* C14: a user row given as 0,0,0 receives the trained parameters of ITS OWN features: its cost is the
   scaled sum of the weights of the unigram features named by its own expansions *)
WeightOfName(name) ==
   LET ks == {k \in 1..Len(m.umap) : m.umap[k].s = name} IN
   IF ks = {} THEN 0
   ELSE LET id == m.umap[CHOOSE k \in ks : TRUE].id IN
        IF id <= Len(m.uwi) /\ m.uwi[id] # 0 THEN m.W[m.uwi[id]] ELSE 0
C14UserOwnCost(p, us) ==
   (Len(p.user) = Len(us)) =>
   \A k \in 1..Len(us) : (us[k].l = 0 /\ us[k].r = 0 /\ us[k].c = 0) =>
      LET names == UniNames(tin.T.uni, Cells(us[k], tin.rules.uni), CateOfSurface(us[k].s), 1)
          w == SumTo([j \in 1..Len(names) |-> WeightOfName(names[j])], 1, Len(names)) IN
      CostOK(M, p.user[k].c, w)
(* the same two statements for the SEED rows: row i carries label i.  Its unigram ids were interned
   before pruning and pruning DROPS the ids that kept no weight from the list, so what remains must be,
   in template order, exactly the weighted ones among the expansions of the row's OWN features with the
   category of the row's OWN first character *)
WeightedName(name) == \E k \in 1..Len(m.umap) : m.umap[k].s = name /\ m.umap[k].id <= Len(m.uwi) /\ m.uwi[m.umap[k].id] # 0
C18SeedUni ==
   \A i \in 1..m.nseed :
      LET want == UniNames(tin.T.uni, Cells(tin.seed[i], tin.rules.uni), CateOfSurface(tin.seed[i].s), 1)
          ids  == m.fs[i].u IN
      [j \in 1..Len(ids) |-> NameOf(m.umap, ids[j])] = SelectSeq(want, LAMBDA x : WeightedName(x))
C14SeedOwnCost(p) ==
   (Len(p.lex) = m.nseed /\ m.nseed = Len(tin.seed)) =>
   \A i \in 1..m.nseed :
      LET names == UniNames(tin.T.uni, Cells(tin.seed[i], tin.rules.uni), CateOfSurface(tin.seed[i].s), 1)
          w == SumTo([j \in 1..Len(names) |-> WeightOfName(names[j])], 1, Len(names)) IN
      CostOK(M, p.lex[i].c, w)
C18User(bg, p, us) ==
   (Len(p.user) = Len(us) /\ Len(m.userlabels) = Len(us)) =>
   \A k \in 1..Len(us) :
      LET lab == m.userlabels[k] IN
      /\ UniIdsNameExpansions(m.fs[lab].u, m.umap, tin.T.uni, Cells(us[k], tin.rules.uni), CateOfSurface(us[k].s))
      /\ IdsNameExpansions(m.fs[lab].l, m.lmap, tin.T.left, Cells(us[k], tin.rules.left))
      /\ IdsNameExpansions(m.fs[lab].r, m.rmap, tin.T.right, Cells(us[k], tin.rules.right))
      /\ ((us[k].l = 0 /\ us[k].r = 0 /\ us[k].c = 0) =>
            /\ p.user[k].r \in 1..Len(bg.R) /\ p.user[k].l \in 1..Len(bg.L)
            /\ RowMatches(bg.R[p.user[k].r], ExpTuple(tin.T.left, Cells(us[k], tin.rules.left)))
            /\ RowMatches(bg.L[p.user[k].l], ExpTuple(tin.T.right, Cells(us[k], tin.rules.right))))

(* ---------------- C15: outputs are a function of the model state ---------------- *)
Kinds == {"lex", "matrix", "unk", "left", "right", "cost"}
Gen ==
   /\ Is("gen")
   /\ LET who == E.who  p == E.proj  sameModel == ext[who] = mext
          keyed == {<<k, ext[who], E.hashes[k]>> : k \in Kinds} \cup {<<"user", <<ext[who], users[who]>>, E.hashes.user>>}
      IN
      /\ A("C14", "emitted-files-compile", E.compiled)
      /\ (E.compiled /\ sameModel =>
            /\ A("C14", "lexicon-rows-are-the-model-image", C14Lex(p))
            /\ A("C14", "unknown-rows-are-the-model-image", C14Unk(p))
            /\ A("C14", "matrix-is-the-model-image", C14Matrix(p))
            /\ A("C14", "surfaces-preserved", \A i \in 1..Len(E.surf_ok) : E.surf_ok[i])
            /\ (users[who] = users.mem => A("C14", "user-rows-trained-iff-000", C14User(p, users[who])))
            /\ (users[who] = users.mem => A("C14", "user-row-cost-is-the-weight-of-its-own-features", C14UserOwnCost(p, users[who])))
            /\ A("C16", "bigram-rows-and-costs-are-the-model-image", BgRowsOK(E.bg) /\ BgCostOK(E.bg))
            /\ A("C14", "seed-row-cost-is-the-weight-of-its-own-features", C14SeedOwnCost(p))
            /\ A("C18", "seed-rows-unigram-ids-name-their-own-expansions", C18SeedUni)
            /\ A("C18", "class-tuples-are-expansions", C18Classes(E.bg, p))
            /\ A("C18", "unknown-entries-class-tuples-are-expansions", C18Unk(E.bg, p))
            /\ (users[who] = users.mem => A("C18", "user-rows-feature-ids-name-their-own-expansions", C18User(E.bg, p, users[who]))))
      /\ (E.compiled => /\ A("C14", "ids-inside-matrix-and-costs-16-bit", C14Ids(p) /\ C14Costs16(p))
                        /\ A("C16", "small-dictionary-agrees-with-matrix",
                             (StarListed(E.bg) /\ DevStarCollision) \/ (SmallAgrees(p, E.small.raw) /\ DualAgrees(p, E.small.dual, E.bg))))
      /\ (E.compiled /\ "mat" \in DOMAIN E.small.raw /\ "mat" \in DOMAIN E.small.dual =>
            A("C16", "small-dictionary-keeps-its-costs-when-its-ids-are-reordered",
              E.small.raw.mapped = E.small.raw.mat /\ E.small.dual.mapped = E.small.dual.mat))
      /\ A("C15", "same-model-state-same-files", \A x \in keyed : \A y \in memo : (x[1] = y[1] /\ x[2] = y[2]) => x[3] = y[3])
      /\ memo' = memo \cup keyed
   /\ UNCHANGED <<tin, m, M, mext, ext, users, hasDisk>>

(* a training session without any trained model (the configuration could not be trained) *)
TrainErr == /\ Is("train_err") /\ UNCHANGED <<tin, m, M, mext, ext, users, hasDisk, memo>>

(* named deviation MergeNoBigram (F25, known finding): the model kept no bigram weight at all
   (rucrf's bigram_weight_indices is empty) but a feature set added by read_user_lexicon carries
   a bigram feature id; rucrf::RawModel::merge indexes bigram_weight_indices[0] and panics, so
   write_dictionary / write_bigram_details cannot be called.  Consumed only when switched on. *)
MergeNoBigramSig == /\ m # <<>> /\ m.bwi = <<>>
                    /\ \E i \in 1..Len(m.fs) : (\E k \in 1..Len(m.fs[i].r) : m.fs[i].r[k] # 0) \/ (\E k \in 1..Len(m.fs[i].l) : m.fs[i].l[k] # 0)
PanicMerge == /\ Is("panic") /\ DevMergeNoBigram /\ MergeNoBigramSig
              /\ UNCHANGED <<tin, m, M, mext, ext, users, hasDisk, memo>>

(* the train and dictgen binaries against the library on the same inputs (training is
   deterministic on one thread): dictgen reads the model train wrote, optionally adds the user
   lexicon, and must write byte-identical files *)
CliDiff == /\ Is("clidiff")
           /\ AnyA({"C14", "C15"}, "tools-succeed-iff-library-does", E.lib_ok = (E.train_ok /\ E.dictgen_ok))
           /\ AnyA({"C14", "C15"}, "train-and-dictgen-tools-write-the-library's-files", (E.lib_ok /\ E.dictgen_ok) => E.cli = E.lib)
           /\ UNCHANGED <<tin, m, M, mext, ext, users, hasDisk, memo>>

Next == TSession \/ ModelEv \/ WR \/ AddUser \/ Gen \/ TrainErr \/ PanicMerge \/ CliDiff
Spec == Init /\ [][Next]_vars
Accepted ==
   LET d == TLCGet("stats").diameter IN
   IF d - 1 = Len(Rec) THEN TRUE
   ELSE Print(<<"REJECTED", d, ToJson(Rec[d])>>, FALSE)
============================================================================
