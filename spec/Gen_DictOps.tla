---------------------------- MODULE Gen_DictOps ----------------------------
(* Behaviour generator for the dictionary lifecycle (C05 C06 C08): every history over
     load user lexicon U1 / U2 / a CSV without rows, clear it, remap ids with a rotation or a swap (two permutations
     of three non-zero ids that do NOT commute), write;read
   up to Depth steps on a 4x4-id dictionary, printed as a dictionary session for the replayer
   (which projects the real dictionary and tokenizes probes after every step).  The abstract
   dictionary is threaded through so that the model's own theorems are checked on every
   generated behaviour. *)
EXTENDS VDictOps, Json
CONSTANTS Depth

Base0 == WithIdentity(
        [ cats |-> << [invoke |-> 1, group |-> 1, length |-> 1], [invoke |-> 0, group |-> 0, length |-> 2] >>,
          space |-> -1,
          ranges |-> << [lo |-> 97, hi |-> 97, cs |-> <<1>>] >>,
          lex |-> << [s |-> <<97>>, l |-> 1, r |-> 2, c |-> 2, f |-> "a"], [s |-> <<97, 98>>, l |-> 2, r |-> 3, c |-> 1, f |-> "ab"],
                     [s |-> <<98>>, l |-> 3, r |-> 1, c |-> 3, f |-> "b"] >>,
          user |-> <<>>,
          unk |-> << [cat |-> 1, l |-> 2, r |-> 2, c |-> 6, f |-> "uA"], [cat |-> 0, l |-> 1, r |-> 3, c |-> 5, f |-> "uD"] >>,
          nr |-> 4, nl |-> 4, mat |-> <<0, 1, -2, 3, -4, 5, -6, 7, 2, -1, 4, -3, 6, -5, 8, -7>> ])
U1 == << [s |-> <<97>>, l |-> 3, r |-> 1, c |-> -1, f |-> "u-a"], [s |-> <<98, 97>>, l |-> 1, r |-> 2, c |-> -3, f |-> "u-ba"] >>
U2 == << [s |-> <<97, 98>>, l |-> 2, r |-> 3, c |-> -9, f |-> "u-ab"] >>
Rot == <<2, 3, 1>>      \* lists as given to map_connection_ids_from_iter
Swp == <<2, 1, 3>>
Probes == << <<97, 98, 97>>, <<98, 97, 98>>, <<97, 97>> >>
Opt == [isp |-> FALSE, mgl |-> 0]

Steps == { [step |-> "user", clear |-> FALSE, rows |-> U1], [step |-> "user", clear |-> FALSE, rows |-> U2], [step |-> "user", clear |-> TRUE],
           [step |-> "user", clear |-> FALSE, rows |-> <<>>],      \* a CSV without rows: an error on the pinned tree, nothing changes
           [step |-> "map", ll |-> Rot, rl |-> Swp], [step |-> "map", ll |-> Swp, rl |-> Rot], [step |-> "wr"] }
VARIABLES dict, ref, hist
Init == dict = Base0 /\ ref = Base0 /\ hist = <<>>
Do(st) == /\ hist' = Append(hist, st)
          /\ CASE st.step = "user" /\ st.clear -> dict' = ClearUser(dict) /\ ref' = ClearUser(ref)
               [] st.step = "user" /\ st.rows = <<>> -> UNCHANGED <<dict, ref>>
               [] st.step = "user" -> dict' = SetUser(dict, st.rows) /\ ref' = SetUser(ref, st.rows)
               [] st.step = "map" -> dict' = MapDict(dict, st.ll, st.rl) /\ UNCHANGED ref
               [] OTHER -> UNCHANGED <<dict, ref>>
Next == Len(hist) < Depth /\ \E st \in Steps : Do(st)
Spec == Init /\ [][Next]_<<dict, ref, hist>>

MapInvariant == /\ \A k \in 1..Len(Probes) : DetTokens(dict, Opt, Probes[k]) = RenameToks(DetTokens(ref, Opt, Probes[k]), dict.pl, dict.pr)
                /\ \A r \in 0..3, l \in 0..3 : Conn(dict, dict.pr[r + 1], dict.pl[l + 1]) = Conn(ref, r, l)
UserAsSystem == \A k \in 1..Len(Probes) : UserAsSystemOn(dict, Opt, Probes[k])
Emit == Len(hist) = Depth => PrintT(<<"GEN", ToJson([D |-> Base0, O |-> Opt, steps |-> hist, probes |-> Probes])>>)
=============================================================================
