SPECIFICATION Spec
CONSTANTS
  Prop = "ALL"
  DevStarCollision = FALSE
  DevMergeNoBigram = FALSE
POSTCONDITION Accepted
CHECK_DEADLOCK FALSE
