SPECIFICATION Spec
CONSTANTS
  Prop = "ALL"
  DevStarCollision = FALSE
POSTCONDITION Accepted
CHECK_DEADLOCK FALSE
