SPECIFICATION Spec
CONSTANTS
  Prop = "ALL"
  DevStarCollision = FALSE
  DevMergeNoBigram = FALSE
  DevDualClamp = FALSE
POSTCONDITION Accepted
CHECK_DEADLOCK FALSE
