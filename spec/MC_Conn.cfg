SPECIFICATION Spec
CONSTANTS
  Mode = "scorer"
  K = 2
  Lane = 2
  Emit = FALSE
INVARIANTS Inv EmitInv
CHECK_DEADLOCK FALSE
