---------------------------- MODULE Trace_TrainLat ----------------------------
(* Trace validation of training lattices (extended coverage: no listed property speaks about
   the lattices handed to the CRF library; a rejection here is reported as an EXTENDED-SPEC
   mismatch, never as a VIOLATION of a listed property).
   One trainer per session; its label provider is the only state that evolves. *)
EXTENDS VTrainLat, Json, IOUtils, TLCExt

Rec == ndJsonDeserialize(IOEnv.TRACE)
VARIABLES l, dict, mgl, nlab
vars == <<l, dict, mgl, nlab>>
Init == l = 1 /\ dict = <<>> /\ mgl = 0 /\ nlab = 0
E == Rec[l]
Is(e) == l <= Len(Rec) /\ E.ev = e /\ l' = l + 1
A(n, x) == IF x THEN TRUE ELSE Print(<<"FAILED-CLAUSE", "EXT", n, l>>, FALSE)

Session == /\ Is("tlsession")
           /\ A("labels-are-seed-rows-then-unknown-entries", E.nlab0 = InitialLabels(E.D))
           /\ dict' = E.D /\ mgl' = E.mgl /\ nlab' = E.nlab0

Nodes(e) == [p \in 1..Len(e.nodes) |-> e.nodes[p]]

Lat == /\ Is("tlat")
       /\ LET s == E.s  T == STab(dict, s, FALSE)  toks == E.toks IN
          /\ A("example-well-formed", ExampleOK(dict, s, toks))
          /\ LET pe == PosEdges(dict, s, T, toks, 1, 0, nlab) IN
             /\ A("gold-path-connected", GoldPathConnected(s, pe.edges))
             /\ A("lattice-is-gold-edges-first-plus-all-candidates", LatticeOK(dict, s, T, mgl, pe.edges, E.nodes))
             /\ A("virtual-edges-get-fresh-labels", E.nlab = pe.nlab)
             /\ A("labels-in-range", LabelsInRange(E.nodes, E.nlab))
             /\ nlab' = pe.nlab
       /\ UNCHANGED <<dict, mgl>>

Next == Session \/ Lat
Spec == Init /\ [][Next]_vars
Accepted ==
   LET d == TLCGet("stats").diameter IN
   IF d - 1 = Len(Rec) THEN TRUE
   ELSE Print(<<"REJECTED", d, ToJson(Rec[d])>>, FALSE)
===============================================================================
