SPECIFICATION Spec
CONSTANTS
  Depth = 4
  IgnoreSpace = TRUE
INVARIANTS Emit Sound
CHECK_DEADLOCK FALSE
