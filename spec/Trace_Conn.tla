---------------------------- MODULE Trace_Conn ----------------------------
(* Trace validation for C07 and C09.
   conn     : a connector built from a bigram model; every id pair (hook H2) must equal the
              defining sum DefCost; raw and dual, portable and AVX2 builds.
   scorer   : the double array built from explicit entries (hook H7) answers exactly those.
   image / prefixes / magic : outcomes of Dictionary::read on strict prefixes and foreign
              headers of real images (C09): never Ok, never a panic. *)
EXTENDS VScorer, Json, IOUtils, TLCExt
CONSTANTS Prop

Rec == ndJsonDeserialize(IOEnv.TRACE)
VARIABLES l, imglen
vars == <<l, imglen>>
Init == l = 1 /\ imglen = -1
E == Rec[l]
Is(e) == l <= Len(Rec) /\ E.ev = e /\ l' = l + 1
On(p) == Prop = "ALL" \/ Prop = p
A(p, n, x) == IF ~On(p) THEN TRUE ELSE IF x THEN TRUE ELSE Print(<<"FAILED-CLAUSE", p, n, l>>, FALSE)

ConnEv == /\ Is("conn")
          /\ LET M == E.bg  nr == Len(M.R) + 1  nl == Len(M.L) + 1 IN
             /\ A("C07", "id-counts", E.nr = nr /\ E.nl = nl)
             /\ A("C07", "cost-is-defining-sum", E.nr = nr /\ E.nl = nl => \A x \in 1..(nr * nl) : E.costs[x] = DefCost(M, (x - 1) % nr, (x - 1) \div nr))
          /\ UNCHANGED imglen

ScorerEv == /\ Is("scorer")
            /\ LET S == {<<E.entries[i][1], E.entries[i][2], E.entries[i][3]>> : i \in 1..Len(E.entries)}
                   want(a, b) == IF \E e \in S : e[1] = a /\ e[2] = b THEN CostIn(S, a, b) ELSE 0
                   Tb == TLCEval(ScorerBuild(S))
                   spec(a, b) == LET x == Retrieve(Tb, a, b) IN IF x = NONE THEN 0 ELSE x
               IN /\ A("C07", "double-array-answers-inserted-pairs",
                       \A i \in 1..Len(E.queries) : E.queries[i][3] = want(E.queries[i][1], E.queries[i][2]))
                  /\ A("C07", "spec-double-array-agrees",
                       \A i \in 1..Len(E.queries) : spec(E.queries[i][1], E.queries[i][2]) = want(E.queries[i][1], E.queries[i][2]))
            /\ UNCHANGED imglen

(* C09 *)
ImageEv == /\ Is("image") /\ A("C09", "complete-image-loads", E.full_ok) /\ imglen' = E.len
PrefixEv == /\ Is("prefixes")
            /\ A("C09", "strict-prefix-rejected-without-panic",
                 E.len = imglen /\ E.to < imglen /\ E.n_ok = 0 /\ E.n_panic = 0 /\ E.n_err > 0)
            /\ UNCHANGED imglen
MagicEv == /\ Is("magic")
           /\ A("C09", "foreign-magic-rejected-without-panic", E.n_ok = 0 /\ E.n_panic = 0 /\ E.n_err = E.n)
           /\ UNCHANGED imglen

Next == ConnEv \/ ScorerEv \/ ImageEv \/ PrefixEv \/ MagicEv
Spec == Init /\ [][Next]_vars
Accepted ==
   LET d == TLCGet("stats").diameter IN
   IF d - 1 = Len(Rec) THEN TRUE
   ELSE Print(<<"REJECTED", d, ToJson(Rec[d])>>, FALSE)
===========================================================================
