---------------------------- MODULE MC_DictOps ----------------------------
(* Lifecycle histories of a dictionary (C05 C06 C08): load / replace / clear a user lexicon,
   remap connection ids (all permutations of a 3x3 connector), write+read, in every order up
   to MaxOps.  `ref` follows the same user-lexicon operations but is never remapped.
   Named deviation MapperReplaced (F4): a second mapping forgets the first. *)
EXTENDS VDictOps
CONSTANTS MaxOps, DevMapperReplaced

Base0 == WithIdentity(
        [ cats |-> << [invoke |-> 1, group |-> 1, length |-> 1], [invoke |-> 0, group |-> 0, length |-> 2] >>,
          space |-> -1,
          ranges |-> << [lo |-> 97, hi |-> 97, cs |-> <<1>>] >>,
          lex |-> << [s |-> <<97>>, l |-> 1, r |-> 2, c |-> 2, f |-> "a"], [s |-> <<97, 98>>, l |-> 2, r |-> 1, c |-> 1, f |-> "ab"],
                     [s |-> <<98>>, l |-> 0, r |-> 0, c |-> 3, f |-> "b"] >>,
          user |-> <<>>,
          unk |-> << [cat |-> 1, l |-> 2, r |-> 2, c |-> 6, f |-> "uA"], [cat |-> 0, l |-> 1, r |-> 0, c |-> 5, f |-> "uD"] >>,
          nr |-> 3, nl |-> 3, mat |-> <<0, 1, -2, 3, -4, 5, -6, 7, 2>> ])
U1 == << [s |-> <<97>>, l |-> 2, r |-> 1, c |-> -1, f |-> "u-a"], [s |-> <<98, 97>>, l |-> 1, r |-> 2, c |-> -3, f |-> "u-ba"] >>
U2 == << [s |-> <<97, 98>>, l |-> 1, r |-> 1, c |-> 32767, f |-> "u-ab"] >>
UBad == << [s |-> <<97>>, l |-> 3, r |-> 0, c |-> 0, f |-> "oor"] >>
Lists == { <<1, 2>>, <<2, 1>> }
BadLists == { <<1>>, <<1, 2, 3>>, <<0, 1>>, <<1, 1>>, <<1, 3>>, <<>> }
Sents == SeqsUpTo({97, 98}, 3)
Opt == [isp |-> FALSE, mgl |-> 0]

VARIABLES dict, ref, nops, last
vars == <<dict, ref, nops, last>>
Init == dict = Base0 /\ ref = Base0 /\ nops = 0 /\ last = "ok"

DoMap(D, ll, rl) == IF DevMapperReplaced
                    THEN [MapDict(D, ll, rl) EXCEPT !.pl = PermOfList(ll), !.pr = PermOfList(rl)]
                    ELSE MapDict(D, ll, rl)
Next == /\ nops < MaxOps /\ nops' = nops + 1
        /\ \/ \E u \in {U1, U2} : dict' = SetUser(dict, u) /\ ref' = SetUser(ref, u) /\ last' = "ok"
           \/ (~RowsValid(dict, UBad) /\ UNCHANGED <<dict, ref>> /\ last' = "err")
           \/ dict' = ClearUser(dict) /\ ref' = ClearUser(ref) /\ last' = "ok"
           \/ \E ll \in Lists, rl \in Lists : dict' = DoMap(dict, ll, rl) /\ UNCHANGED ref /\ last' = "ok"
           \/ \E ll \in BadLists, rl \in Lists : ~MapValid(dict, ll, rl) /\ UNCHANGED <<dict, ref>> /\ last' = "err"
           \/ UNCHANGED <<dict, ref>> /\ last' = "ok"          \* write; read : identity on the abstract value
Spec == Init /\ [][Next]_vars
view == <<dict, ref>>

(* C06 *)
MapInvariant == /\ \A s \in Sents : DetTokens(dict, Opt, s) = RenameToks(DetTokens(ref, Opt, s), dict.pl, dict.pr)
                /\ \A r \in 0..2, l \in 0..2 : Conn(dict, dict.pr[r + 1], dict.pl[l + 1]) = Conn(ref, r, l)
                /\ IsPerm(dict.pl, 3) /\ IsPerm(dict.pr, 3)
(* C08 *)
UserAsSystem == \A s \in Sents : UserAsSystemOn(dict, Opt, s)
(* ids always stay inside the connector: no out-of-range lookup later *)
IdsInRange == \A ws \in {dict.lex, dict.user, dict.unk} : \A i \in 1..Len(ws) : ws[i].l < dict.nl /\ ws[i].r < dict.nr
===========================================================================
