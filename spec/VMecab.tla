---------------------------- MODULE VMecab ----------------------------
(* MeCab model conversion (C20): generate_bigram_info.
   A description is [ T      : [left, right : Seq(template)]    bigram templates (VTemplate)
                      rtab   : Seq([id, feats])                 right-id.def lines, in file order
                      ltab   : Seq([id, feats])                 left-id.def lines
                      lines  : Seq([w8, lt, rt])                model.def: weight * 8 (dyadic), left text, right text
                      factor : Nat ]
   Expected connection cost between non-zero ids r (right id of the left word) and l (left id
   of the right word):  sum over templates k that apply to both of  -trunc(w * factor)  for the
   LAST model line whose texts are the two expansions. *)
EXTENDS VTemplate

TruncDiv8(a) == IF a < 0 THEN 0 - ((0 - a) \div 8) ELSE a \div 8
LineCost(ln, factor) == 0 - TruncDiv8(ln.w8 * factor)
FeatsOf(tab, id) == (CHOOSE e \in RangeOf(tab) : e.id = id).feats
Ids(tab) == {tab[i].id : i \in 1..Len(tab)}
(* well-formed: ids 0..n each defined (a repeated id: the last definition wins), id 0 is BOS/EOS *)
TableOK(tab) == /\ Len(tab) > 0 /\ Ids(tab) = 0..(Cardinality(Ids(tab)) - 1)
                /\ \A i \in 1..Len(tab) : tab[i].id = 0 => (Len(tab[i].feats) > 0 /\ tab[i].feats[1] = "BOS/EOS")
LastDef(tab, id) == tab[SetMax({i \in 1..Len(tab) : tab[i].id = id})].feats
PairCostM(d, le, re) ==
   LET idx == {i \in 1..Len(d.lines) : d.lines[i].lt = le /\ d.lines[i].rt = re /\ LineCost(d.lines[i], d.factor) # 0}
   IN IF idx = {} THEN 0 ELSE LineCost(d.lines[SetMax(idx)], d.factor)
ExpectedCost(d, r, l) ==
   LET K == Len(d.T.left)
       term(k) == LET le == Expand(d.T.left[k], LastDef(d.rtab, r), 0)
                      re == Expand(d.T.right[k], LastDef(d.ltab, l), 0)
                  IN IF le.some /\ re.some THEN PairCostM(d, le.s, re.s) ELSE 0
   IN SumTo([k \in 1..K |-> term(k)], 1, K)
=======================================================================
