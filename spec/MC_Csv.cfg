SPECIFICATION Spec
CONSTANTS
  MaxRows = 1
INVARIANT RoundTrip
CHECK_DEADLOCK FALSE
