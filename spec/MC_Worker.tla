---------------------------- MODULE MC_Worker ----------------------------
EXTENDS VBase
CONSTANTS MaxOps, IgnoreSpace, DevAppend, DevStale, DevEosLen

Dict0 == [ cats |-> << [invoke |-> 0, group |-> 1, length |-> 0],
                       [invoke |-> 0, group |-> 1, length |-> 0],
                       [invoke |-> 1, group |-> 0, length |-> 2] >>,
           space |-> 1,
           ranges |-> << [lo |-> 32, hi |-> 32, cs |-> <<1>>], [lo |-> 97, hi |-> 97, cs |-> <<2>>] >>,
           lex |-> << [s |-> <<97>>, l |-> 1, r |-> 0, c |-> -2, f |-> "a"],
                      [s |-> <<97, 98>>, l |-> 0, r |-> 1, c |-> 1, f |-> "ab"],
                      [s |-> <<98, 97>>, l |-> 1, r |-> 1, c |-> 4, f |-> "ba"] >>,
           user |-> <<>>,
           unk |-> << [cat |-> 0, l |-> 0, r |-> 1, c |-> 7, f |-> "uD"],
                      [cat |-> 1, l |-> 1, r |-> 0, c |-> 2, f |-> "uS"],
                      [cat |-> 2, l |-> 1, r |-> 1, c |-> 4, f |-> "uA"] >>,
           nr |-> 2, nl |-> 2, mat |-> <<0, 2, -3, -1>> ]
Sents0 == { <<>>, <<97>>, <<97, 98>>, <<97, 98, 97, 98>>, <<98, 32, 97, 98>>, <<97, 98, 32>> }

VARIABLES wsent, wtk, wtop, wlat, wcnt, wexp, nops
INSTANCE VWorker WITH Workers <- {1, 2}, WDict <- Dict0, WOpts <- [isp |-> IgnoreSpace, mgl |-> 0],
                      WSents <- Sents0, TokenizeAppends <- DevAppend, StaleLattice <- DevStale,
                      EosCountAtLen <- DevEosLen

MCInit == WInit /\ nops = 0
MCNext == nops < MaxOps /\ WNext /\ nops' = nops + 1
MCSpec == MCInit /\ [][MCNext]_<<wvars, nops>>
==========================================================================
