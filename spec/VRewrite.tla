---------------------------- MODULE VRewrite ----------------------------
(* Feature rewriting (C17).
   A rule is [pat : Seq(pattern), out : Seq(outcell)],
     pattern = [k |-> "any"] | [k |-> "lit", v |-> STRING] | [k |-> "alt", v |-> Seq(STRING)]
     outcell = [k |-> "ref", i |-> Nat (1-based)] | [k |-> "text", v |-> STRING]
   Declarative layer: FirstMatch / Rewrite.
   Implementation-shaped layer: the prefix trie FeatureRewriterBuilder::add_rule builds and the
   back-tracking walk FeatureRewriter::rewrite performs on it.  TrieAdd merges a rule's
   pattern cell only with the LAST action of a node; TrieAddPinned is the pinned code's rule
   (merge with any earlier equal edge), kept as a named deviation (F13). *)
EXTENDS VBase

Match(p, f) == CASE p.k = "any" -> TRUE
                 [] p.k = "lit" -> p.v = f
                 [] p.k = "alt" -> \E i \in 1..Len(p.v) : p.v[i] = f
RuleMatches(r, fs) == Len(r.pat) <= Len(fs) /\ \A i \in 1..Len(r.pat) : Match(r.pat[i], fs[i])
FirstMatch(rules, fs) == LET S == {i \in 1..Len(rules) : RuleMatches(rules[i], fs)}
                         IN IF S = {} THEN 0 ELSE SetMin(S)
OutCell(c, fs) == IF c.k = "text" THEN c.v ELSE IF c.i >= 1 /\ c.i <= Len(fs) THEN fs[c.i] ELSE "*"
Apply(r, fs) == [j \in 1..Len(r.out) |-> OutCell(r.out[j], fs)]
(* result: [hit |-> BOOLEAN, out |-> Seq(STRING)]; no rule => features unchanged *)
Rewrite(rules, fs) == LET i == FirstMatch(rules, fs) IN
                      IF i = 0 THEN [hit |-> FALSE, out |-> fs] ELSE [hit |-> TRUE, out |-> Apply(rules[i], fs)]

(* ---- the trie: sequence of nodes; node = sequence of actions;
        action = [t |-> "edge", p |-> pattern, to |-> node] | [t |-> "rw", id |-> rule index] ---- *)
SamePat(p, q) == p.k = q.k /\ (p.k = "any" \/ (p.k = "lit" /\ p.v = q.v) \/ (p.k = "alt" /\ RangeOf(p.v) = RangeOf(q.v)))
FindEdge(node, p, pinned) ==
   LET idxs == {i \in 1..Len(node) : node[i].t = "edge" /\ SamePat(node[i].p, p) /\ (pinned \/ i = Len(node))}
   IN IF idxs = {} THEN 0 ELSE SetMin(idxs)
RECURSIVE AddAt(_, _, _, _, _, _)
AddAt(trie, cur, pat, k, id, pinned) ==
   IF k > Len(pat) THEN [trie EXCEPT ![cur] = Append(@, [t |-> "rw", id |-> id])]
   ELSE LET e == FindEdge(trie[cur], pat[k], pinned) IN
        IF e # 0 THEN AddAt(trie, trie[cur][e].to, pat, k + 1, id, pinned)
        ELSE LET new == Len(trie) + 1
                 t2 == Append([trie EXCEPT ![cur] = Append(@, [t |-> "edge", p |-> pat[k], to |-> new])], <<>>)
             IN AddAt(t2, new, pat, k + 1, id, pinned)
RECURSIVE BuildTrie(_, _, _, _)
BuildTrie(trie, rules, i, pinned) ==
   IF i > Len(rules) THEN trie ELSE BuildTrie(AddAt(trie, 1, rules[i].pat, 1, i, pinned), rules, i + 1, pinned)
TrieOf(rules, pinned) == BuildTrie(<< <<>> >>, rules, 1, pinned)

(* depth-first walk with back-tracking; returns the rule index or 0 *)
RECURSIVE Dfs(_, _, _, _)
Dfs(trie, node, depth, fs) ==
   LET acts == trie[node]
       RECURSIVE Try(_)
       Try(i) == IF i > Len(acts) THEN 0
                 ELSE IF acts[i].t = "rw" THEN acts[i].id
                 ELSE IF depth + 1 <= Len(fs) /\ Match(acts[i].p, fs[depth + 1])
                      THEN LET r == Dfs(trie, acts[i].to, depth + 1, fs) IN IF r # 0 THEN r ELSE Try(i + 1)
                      ELSE Try(i + 1)
   IN Try(1)
=========================================================================
