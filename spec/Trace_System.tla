---------------------------- MODULE Trace_System ----------------------------
(* Trace validation of tool-chain histories executed with the real command-line binaries
   (compile, reorder, map, tokenize): every invocation succeeds exactly when its input files
   exist, reorder writes exactly the orders the specification derives from the training lines,
   map renames the dictionary on disk, and tokenize prints what the specification allows for
   the dictionary that is on disk at that moment. *)
EXTENDS VSystem, Json, IOUtils, TLCExt
CONSTANTS Prop

Rec == ndJsonDeserialize(IOEnv.TRACE)
VARIABLES l, cfgS, fs, dict, mp
vars == <<l, cfgS, fs, dict, mp>>
E == Rec[l]
Is(e) == l <= Len(Rec) /\ E.ev = e /\ l' = l + 1
On(p) == Prop = "ALL" \/ Prop = p
A(p, n, x) == IF ~On(p) THEN TRUE ELSE IF x THEN TRUE ELSE Print(<<"FAILED-CLAUSE", p, n, l>>, FALSE)
(* the tool-level clauses belong to the property whose behaviour they close: C13 (reorder -> map),
   C06 (map keeps tokenization), C01/C02 (what tokenize prints) *)
AnyOf(ps) == Prop = "ALL" \/ Prop \in ps
AA(ps, n, x) == IF ~AnyOf(ps) THEN TRUE ELSE IF x THEN TRUE ELSE Print(<<"FAILED-CLAUSE", Prop, n, l>>, FALSE)

Init == l = 1 /\ cfgS = <<>> /\ fs = {} /\ dict = <<>> /\ mp = <<>>

Start == /\ Is("syssession")
         /\ cfgS' = [user |-> E.user, linesets |-> E.linesets, probes |-> E.probes, defs |-> TLCEval(WithIdentity(E.defs))]
         /\ fs' = {} /\ dict' = <<>> /\ mp' = <<>>

Step ==
   /\ Is("sys")
   /\ LET ok == Succeeds(fs, E.tool) IN
      /\ AA({"C13", "C06", "C01", "C10"}, "tool-succeeds-iff-inputs-exist", E.ok = ok)
      /\ fs' = IF E.ok THEN fs \cup Writes(E.tool) ELSE fs
      /\ IF ~(E.ok /\ ok) THEN UNCHANGED <<dict, mp>>
         ELSE CASE E.tool = "compile" -> dict' = cfgS.defs /\ UNCHANGED mp
                [] E.tool = "reorder" ->
                      LET c == ReorderCounts(dict, cfgS.linesets[E.lines]) IN
                      /\ AA({"C13"}, "reorder-writes-the-frequency-orders",
                            E.lo = OrderOf(c.lc, dict.nl) /\ E.ro = OrderOf(c.rc, dict.nr))
                      /\ mp' = <<E.lo, E.ro>> /\ UNCHANGED dict
                [] E.tool = "map" ->
                      /\ AA({"C13", "C06"}, "mapping-on-disk-is-valid", MapValid(dict, mp[1], mp[2]))
                      /\ dict' = TLCEval(MapDict(dict, mp[1], mp[2])) /\ UNCHANGED mp
                [] OTHER ->      \* tokenize
                      LET D == IF E.user THEN SetUser(dict, cfgS.user) ELSE dict
                          O == [isp |-> E.isp, mgl |-> 0] IN
                      /\ AA({"C01", "C02", "C06", "C13"}, "tokenize-prints-an-optimal-segmentation-of-the-dictionary-on-disk",
                            /\ Len(E.toks) = Len(cfgS.probes)
                            /\ \A k \in 1..Len(cfgS.probes) :
                                  LET s == cfgS.probes[k]  T == STab(D, s, FALSE)  d == CliDerive(D, O, s, T, E.toks[k], 1, 0) IN
                                  /\ d.ok /\ PartitionOK(D, O, s, T, d.core)
                                  /\ (Len(s) > 0 => /\ ChainOK(D, O, s, T, d.core, 1, 0, 0) /\ PrefixCostOK(D, d.core)
                                                    /\ ChainTotal(D, d.core) = OptCost(D, O, s, T)))
                      /\ UNCHANGED <<dict, mp>>
   /\ UNCHANGED cfgS

Next == Start \/ Step
Spec == Init /\ [][Next]_vars
Accepted ==
   LET d == TLCGet("stats").diameter IN
   IF d - 1 = Len(Rec) THEN TRUE
   ELSE Print(<<"REJECTED", d, ToJson(Rec[d])>>, FALSE)
=============================================================================
