SPECIFICATION Spec
CONSTANTS
  MaxN = 4
INVARIANT Inv
CHECK_DEADLOCK FALSE
