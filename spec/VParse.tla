---------------------------- MODULE VParse ----------------------------
(* Definition files at token level (C10).  A file is a sequence of lines, a line a sequence
   of tokens (strings): char.def and matrix.def lines are split at blanks, CSV rows at commas.
   Class(F) says what the builders may do with a file set F:
     "VALID"     : must be accepted
     "MUST_ERR"  : must be rejected with an error - accepting it would be unsafe or would
                   mis-assign character categories
     "DONT_CARE" : accepting or rejecting is equally harmless
   and in every class: never a panic, and an accepted dictionary tokenizes safely.
   Numerals are recognised syntactically (decimal digits, optional leading '-'). *)
EXTENDS VBase

Digits == {"0", "1", "2", "3", "4", "5", "6", "7", "8", "9", "10", "15", "16", "17", "255", "256",
           "32767", "32768", "65535", "65536", "99999999999"}
NumVal(t) == CASE t = "0" -> 0 [] t = "1" -> 1 [] t = "2" -> 2 [] t = "3" -> 3 [] t = "4" -> 4 [] t = "5" -> 5
               [] t = "6" -> 6 [] t = "7" -> 7 [] t = "8" -> 8 [] t = "9" -> 9 [] t = "10" -> 10 [] t = "15" -> 15
               [] t = "16" -> 16 [] t = "17" -> 17 [] t = "255" -> 255 [] t = "256" -> 256 [] t = "32767" -> 32767
               [] t = "32768" -> 32768 [] t = "65535" -> 65535 [] t = "65536" -> 65536 [] OTHER -> 2000000000
IsNum(t) == t \in Digits

(* ---- char.def ---- *)
IsRangeLine(ln) == Len(ln) > 0 /\ ln[1] \in {"0x0020", "0x0061..0x007A", "0x0041", "0x10000", "0x0041..0x0040", "0x3042..0x3043"}
IsComment(ln) == Len(ln) > 0 /\ ln[1] = "#"
CatLines(F) == {i \in 1..Len(F.char) : Len(F.char[i]) > 0 /\ ~IsRangeLine(F.char[i]) /\ ~IsComment(F.char[i])}
RangeLines(F) == {i \in 1..Len(F.char) : IsRangeLine(F.char[i])}
(* a category line the parser would take: name, 0/1, 0/1, number *)
CatLineOK(ln) == Len(ln) >= 4 /\ ln[2] \in {"0", "1"} /\ ln[3] \in {"0", "1"} /\ IsNum(ln[4])
DefinedCats(F) == {F.char[i][1] : i \in {i \in CatLines(F) : CatLineOK(F.char[i])}} 
AllCatNames(F) == DefinedCats(F) \cup {"DEFAULT"}
RangeCats(ln) ==      \* tokens after the range up to a comment
   LET idx == {k \in 2..Len(ln) : ln[k] = "#"}
       stop == IF idx = {} THEN Len(ln) + 1 ELSE SetMin(idx)
   IN SubSeq(ln, 2, stop - 1)
CharWellFormed(F) ==  \* every line is syntactically acceptable to the reader
   /\ \A i \in CatLines(F) : CatLineOK(F.char[i])
   /\ \A i \in RangeLines(F) : F.char[i][1] \in {"0x0020", "0x0061..0x007A", "0x0041", "0x3042..0x3043"} /\ Len(F.char[i]) >= 2
CharMustErr(F) ==
   \/ \E i \in CatLines(F) : CatLineOK(F.char[i]) /\ NumVal(F.char[i][4]) >= 16          \* length does not fit 4 bits
   \/ Cardinality(AllCatNames(F)) > 18                                                   \* category set does not fit 18 bits
   \/ "DEFAULT" \notin DefinedCats(F)
   \/ \E i \in RangeLines(F) : CharWellFormed(F) /\
         (RangeCats(F.char[i]) = <<>> \/ \E k \in 1..Len(RangeCats(F.char[i])) : RangeCats(F.char[i])[k] \notin DefinedCats(F))

(* ---- matrix.def ---- *)
MatrixHeaderOK(F) == Len(F.matrix) > 0 /\ Len(F.matrix[1]) = 2 /\ IsNum(F.matrix[1][1]) /\ IsNum(F.matrix[1][2])
                     /\ NumVal(F.matrix[1][1]) <= 65535 /\ NumVal(F.matrix[1][2]) <= 65535
NR(F) == NumVal(F.matrix[1][1])
NL(F) == NumVal(F.matrix[1][2])
MatrixMustErr(F) ==
   \/ Len(F.matrix) = 0                                                                   \* no header at all
   \/ (MatrixHeaderOK(F) /\ \E i \in 2..Len(F.matrix) :
         Len(F.matrix[i]) = 3 /\ IsNum(F.matrix[i][1]) /\ IsNum(F.matrix[i][2]) /\
         (NumVal(F.matrix[i][1]) >= NR(F) \/ NumVal(F.matrix[i][2]) >= NL(F)))           \* cell outside the matrix

(* ---- lexicon-shaped CSV rows: surface, left id, right id, cost, feature... ---- *)
RowIdsOutside(rows, nr, nl) ==
   \E i \in 1..Len(rows) : Len(rows[i]) >= 5 /\ rows[i][1] # "" /\ IsNum(rows[i][2]) /\ IsNum(rows[i][3]) /\
      (NumVal(rows[i][2]) >= nl \/ NumVal(rows[i][3]) >= nr)
UnkUndefinedCat(F) == \E i \in 1..Len(F.unk) : Len(F.unk[i]) >= 5 /\ F.unk[i][1] # "" /\ F.unk[i][1] \notin AllCatNames(F)
(* F12: a category that some character has as its primary category has no unknown entry *)
PrimaryCats(F) == {"DEFAULT"} \cup {RangeCats(F.char[i])[1] : i \in {i \in RangeLines(F) : RangeCats(F.char[i]) # <<>>}}
MissingUnk(F) == \E c \in PrimaryCats(F) : ~\E i \in 1..Len(F.unk) : Len(F.unk[i]) >= 5 /\ F.unk[i][1] = c

MustErr(F) == \/ CharMustErr(F) \/ MatrixMustErr(F)
              \/ (MatrixHeaderOK(F) /\ (RowIdsOutside(F.lex, NR(F), NL(F)) \/ RowIdsOutside(F.unk, NR(F), NL(F))))
              \/ UnkUndefinedCat(F)
(* char.def lines are split at runs of blanks: an empty token does not exist there *)
NormChar(F) == [F EXCEPT !.char = [i \in 1..Len(F.char) |-> SelectSeq(F.char[i], LAMBDA t : t # "")]]
Class(F0, base) == LET F == NormChar(F0) IN
                   IF F = base THEN "VALID" ELSE IF MustErr(F) THEN "MUST_ERR"
                   ELSE IF MissingUnk(F) THEN "MUST_ERR_F12" ELSE "DONT_CARE"
=======================================================================
