---------------------------- MODULE Trace_Eval ----------------------------
(* Trace validation of the `evaluate` tool (extended coverage, bin/check EXT): the printed
   precision / recall / F1, recovered as fractions by the harness, against the counts VEval derives
   from the reference corpus and the tokenizer's own sentences. *)
EXTENDS VEval, Json, IOUtils, TLCExt

Rec == ndJsonDeserialize(IOEnv.TRACE)
VARIABLE l
Init == l = 1
E == Rec[l]
Is(e) == l <= Len(Rec) /\ E.ev = e /\ l' = l + 1
A(n, x) == IF x THEN TRUE ELSE Print(<<"FAILED-CLAUSE", "EXT", n, l>>, FALSE)

Seqs(x) == [i \in 1..Len(x) |-> [k \in 1..Len(x[i]) |-> [n |-> x[i][k].n, f |-> [q \in 1..Len(x[i][k].f) |-> x[i][k].f[q]]]]]
CliEval ==
   /\ Is("clieval")
   /\ A("evaluate-succeeds", E.ok)
   /\ (E.ok =>
         LET idx == [k \in 1..Len(E.idx) |-> E.idx[k]]
             c == Counts(Seqs(E.ref), Seqs(E.sys), idx) IN
         /\ A("every-sentence-is-compared", Len(E.ref) = Len(E.sys))
         /\ A("precision-recall-f1-are-the-count-ratios", MetricsOK(c, E.prec, E.rec, E.f1))
         /\ A("f1-undefined-iff-nothing-in-common", E.f1nan = (c.ncor = 0)))

Next == CliEval
Spec == Init /\ [][Next]_l
Accepted ==
   LET d == TLCGet("stats").diameter IN
   IF d - 1 = Len(Rec) THEN TRUE
   ELSE Print(<<"REJECTED", d, ToJson(Rec[d])>>, FALSE)
===========================================================================
