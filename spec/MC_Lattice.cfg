SPECIFICATION Spec
CONSTANTS
  MaxN = 3
  UseAstral = FALSE
  Family = "full"
INVARIANTS NoStuck Partition OptimalMC PrefixCost Chain CountsBalanced
PROPERTY Termination
VIEW view
CHECK_DEADLOCK FALSE
