SPECIFICATION Spec
CONSTANTS
  Prop = "ALL"
  DevStuck = FALSE
POSTCONDITION Accepted
CHECK_DEADLOCK FALSE
