SPECIFICATION MCSpec
CONSTANTS
  MaxOps = 6
  IgnoreSpace = TRUE
  DevAppend = FALSE
  DevStale = FALSE
  DevEosLen = FALSE
INVARIANTS Determinism ResultValid CountsExact
PROPERTY Isolation
VIEW wview
CHECK_DEADLOCK FALSE
