SPECIFICATION Spec
CONSTANTS
  Prop = "ALL"
  DevAstralNul = FALSE
POSTCONDITION Accepted
CHECK_DEADLOCK FALSE
