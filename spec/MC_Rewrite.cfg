SPECIFICATION Spec
CONSTANTS
  NRules = 3
  NCols = 2
  Pinned = FALSE
  Emit = FALSE
  SmallAlpha = FALSE
INVARIANTS Refines EmitInv
CHECK_DEADLOCK FALSE
