---------------------------- MODULE MC_Model ----------------------------
(* Design-level checks behind C14 / C16 on small integer-weight models:
   (a) the cost scale is monotone (higher weight => lower or equal cost), sign-correct and
       stays within 16 bits;
   (b) the sum of the per-template truncated bigram costs differs from the truncated matrix
       cell by at most K (hence K + 1 with the independent rounding of the float evaluation);
   (c) merge(): labels with equal feature tuples share their connection ids, different tuples
       get different ids, every id lies inside the matrix dimensions, and the cell of two
       labels is the sum over template positions of the listed pair weights. *)
EXTENDS VModel
CONSTANTS KMax
WSet == {-1000, -333, -7, -1, 0, 1, 2, 500, 999}

VARIABLES ws, extra
Init == ws \in UNION {[1..k -> WSet] : k \in 1..KMax} /\ extra \in WSet
Next == UNCHANGED <<ws, extra>>
Spec == Init /\ [][Next]_<<ws, extra>>

Sum == SumTo(ws, 1, Len(ws))
Mx == SetMax({Abs(Sum), Abs(extra)} \cup {Abs(ws[k]) : k \in 1..Len(ws)})
MM == [maxabs |-> Mx]
PerTemplate == SumTo([k \in 1..Len(ws) |-> CostOf(MM, ws[k])], 1, Len(ws))
Rounding == Abs(PerTemplate - CostOf(MM, Sum)) <= Len(ws)
Monotone == \A a, b \in WSet : (Abs(a) <= Mx /\ Abs(b) <= Mx /\ a > b) => CostOf(MM, a) <= CostOf(MM, b)
Range16 == \A a \in WSet : Abs(a) <= Mx => Abs(CostOf(MM, a)) <= 32767 /\ (a > 0 => CostOf(MM, a) <= 0) /\ (a < 0 => CostOf(MM, a) >= 0)

(* (c) a fixed family of tiny models: 3 labels over 2 templates *)
Tuples == {<<0, 0>>, <<1, 0>>, <<1, 2>>, <<2, 2>>}
MergeOK ==
   \A t1 \in Tuples, t2 \in Tuples, t3 \in Tuples :
      LET m == [W |-> <<ws[1], extra>>, uwi |-> <<1>>, bwi |-> << <<<<1, 0>>>>, <<<<1, 1>>, <<0, 0>>>>, <<<<2, 1>>>> >>,
                fs |-> << [u |-> <<1>>, r |-> t1, l |-> t2], [u |-> <<>>, r |-> t2, l |-> t3], [u |-> <<1>>, r |-> t1, l |-> t1] >>]
          M == Merged(m)
      IN /\ M.lid[1] = M.lid[3]                                       \* equal right-feature tuples share the left id
         /\ (t1 # t2 => M.lid[1] # M.lid[2])
         /\ \A i \in 1..3 : M.lid[i] < M.nl /\ M.rid[i] < M.nr /\ M.lid[i] >= 1 /\ M.rid[i] >= 1
         /\ M.lw[1] = ws[1] /\ M.lw[2] = 0
         /\ M.cells[M.lid[2] * M.nr + M.rid[1] + 1]
              = SumTo([k \in 1..2 |-> IF t2[k] # 0 /\ t2[k] # 0 THEN Bw(m, t2[k], t2[k]) ELSE 0], 1, 2)
=========================================================================
