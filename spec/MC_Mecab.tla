---------------------------- MODULE MC_Mecab ----------------------------
(* C20, design level: the files generate_bigram_info writes (implementation-shaped GenBigram:
   expansions interned to numeric ids in file order, rows of ids, cost lines keyed by the ids'
   decimal text) give, through the defining sum of the bigram connectors (VConn.DefCost), exactly
   the expected cost of VMecab for every pair of non-zero ids - for all small descriptions. *)
EXTENDS VMecab, VConn, SequencesExt
CONSTANTS MaxLines

Lit(v) == [k |-> "lit", v |-> v]
Ref(i) == [k |-> "ref", i |-> i]
Opt(i) == [k |-> "opt", i |-> i]
TSets == { [left |-> <<<<Lit("p:"), Ref(0)>>>>, right |-> <<<<Lit("p:"), Ref(0)>>>>],
           [left |-> <<<<Lit("p:"), Ref(0)>>, <<Lit("q:"), Opt(1)>>>>, right |-> <<<<Lit("p:"), Ref(1)>>, <<Lit("q:"), Opt(0)>>>>] }
FeatLists == { <<"a">>, <<"*", "a">>, <<"a", "b">> }
Tabs == { << [id |-> 0, feats |-> <<"BOS/EOS">>], [id |-> 1, feats |-> f1] >> : f1 \in FeatLists }
        \cup { << [id |-> 0, feats |-> <<"BOS/EOS">>], [id |-> 1, feats |-> f1], [id |-> 2, feats |-> f2] >> : f1 \in FeatLists, f2 \in {<<"a">>, <<"*", "a">>} }
Texts == {"p:a", "p:*", "p:b", "q:a", "q:b", "zz"}
LineSet == [w8 : {-12, 4, 0}, lt : {"p:a", "p:*", "q:a"}, rt : {"p:a", "p:b", "q:a"}]

VARIABLES d
Init == d \in [T : TSets, rtab : Tabs, ltab : Tabs, lines : UNION {[1..n -> LineSet] : n \in 0..1}, factor : {700}]
Next == /\ Len(d.lines) >= 1 /\ Len(d.lines) < MaxLines
        /\ \E ln \in LineSet : d' = [d EXCEPT !.lines = Append(@, ln)]
Spec == Init /\ [][Next]_d

(* ---- implementation-shaped generation ---- *)
RECURSIVE InternTab(_, _, _, _, _)
InternTab(tpls, tab, i, names, rows) ==       \* names : interned strings (position = id); rows : id -> Seq(id or 0)
   IF i > Len(tab) THEN [names |-> names, rows |-> rows]
   ELSE LET x == ExpandRow(tpls, tab[i].feats, 0, 1, names, <<>>)
        IN InternTab(tpls, tab, i + 1, x.tab, [rows EXCEPT ![tab[i].id] = x.ids])
IdText(k) == IF k = 0 THEN "*" ELSE ToString(k)
GenBigram(dd) ==
   LET n == Cardinality(Ids(dd.rtab)) - 1  mm == Cardinality(Ids(dd.ltab)) - 1
       L0 == InternTab(dd.T.left, dd.rtab, 1, <<>>, [i \in 0..n |-> <<>>])
       R0 == InternTab(dd.T.right, dd.ltab, 1, <<>>, [i \in 0..mm |-> <<>>])
       keep == {i \in 1..Len(dd.lines) : /\ LineCost(dd.lines[i], dd.factor) # 0
                                        /\ IdIn(L0.names, dd.lines[i].lt) # 0 /\ IdIn(R0.names, dd.lines[i].rt) # 0}
       sq == SetToSortSeq(keep, LAMBDA a, b : a < b)
   IN [ R |-> [r \in 1..n |-> [k \in 1..Len(L0.rows[r]) |-> IdText(L0.rows[r][k])]],
        L |-> [j \in 1..mm |-> [k \in 1..Len(R0.rows[j]) |-> IdText(R0.rows[j][k])]],
        cost |-> [x \in 1..Len(sq) |-> [rf |-> ToString(IdIn(L0.names, dd.lines[sq[x]].lt)),
                                         lf |-> ToString(IdIn(R0.names, dd.lines[sq[x]].rt)),
                                         c |-> LineCost(dd.lines[sq[x]], dd.factor)]] ]
Conversion ==
   LET M == GenBigram(d) IN
   \A r \in 1..Len(M.R), j \in 1..Len(M.L) : DefCost(M, r, j) = ExpectedCost(d, r, j)
=========================================================================
