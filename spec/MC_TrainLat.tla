---------------------------- MODULE MC_TrainLat ----------------------------
(* Exhaustive check of the training-lattice design (VTrainLat) over a small scope: a trainer
   (dictionary, max_grouping_len, label counter) receives up to MaxSteps examples, each any
   sentence over {a, b, z} of length <= MaxN with any segmentation and any gold features.
   The invariants are consequences a user of `train` relies on; the two switchable ones are
   NAMED DEVIATIONS of the pinned code (TLC prints a witness when they are switched on). *)
EXTENDS VTrainLat, SequencesExt
CONSTANTS MaxN, MaxSteps,
          ExactSurface,     \* TRUE: demand that a gold seed label names a row with the gold SURFACE
          GoldGenerable     \* TRUE: demand that a gold unknown edge is one the candidate rule generates

F1 == <<"N">>
F2 == <<"V", "x">>
Feats == {F1, F2}
Words == << [s |-> <<97>>, f |-> F1], [s |-> <<97, 98>>, f |-> F1], [s |-> <<98>>, f |-> F2],
            [s |-> <<97, 97>>, f |-> F2], [s |-> <<97>>, f |-> F2] >>
SeedRow(i) == [s |-> Words[i].s, f |-> Words[i].f, l |-> 0, r |-> 0, c |-> 0]
LexOf(S) == LET q == SetToSortSeq(S, LAMBDA a, b : a < b) IN [k \in 1..Len(q) |-> SeedRow(q[k])]
UnkVariants == { << [cat |-> 1, f |-> <<"*">>, l |-> 0, r |-> 0, c |-> 0], [cat |-> 0, f |-> <<"*">>, l |-> 0, r |-> 0, c |-> 0] >>,
                 << [cat |-> 1, f |-> <<"V">>, l |-> 0, r |-> 0, c |-> 0], [cat |-> 0, f |-> <<"*", "x">>, l |-> 0, r |-> 0, c |-> 0],
                    [cat |-> 1, f |-> <<"N">>, l |-> 0, r |-> 0, c |-> 0] >> }
Dicts == { [ cats |-> << [invoke |-> 0, group |-> 1, length |-> 0], [invoke |-> iv, group |-> g, length |-> len] >>,
             space |-> -1, ranges |-> << [lo |-> 97, hi |-> 98, cs |-> <<1>>] >>,
             lex |-> LexOf(S), user |-> <<>>, unk |-> u ] :
           iv \in {0, 1}, g \in {0, 1}, len \in 0..2, S \in (SUBSET {1, 2, 3, 4, 5}) \ {{}}, u \in UnkVariants }

Sents == UNION {[1..k -> {97, 98, 122}] : k \in 1..MaxN}
(* all segmentations of a sentence of length n: sequences of positive lengths summing to n *)
RECURSIVE Segs(_)
Segs(n) == IF n = 0 THEN {<<>>} ELSE UNION {{<<k>> \o r : r \in Segs(n - k)} : k \in 1..n}
Golds(n) == UNION {{[k \in 1..Len(sg) |-> [n |-> sg[k], f |-> fs[k]]] : fs \in [1..Len(sg) -> Feats]} : sg \in Segs(n)}

VARIABLES D, mgl, nlab0, nlab, step, s, toks, pe
vars == <<D, mgl, nlab0, nlab, step, s, toks, pe>>

(* the trainer has already handed out 0 or 2 fresh labels for earlier examples *)
Init == /\ D \in Dicts /\ mgl \in {0, 1}
        /\ nlab0 \in {InitialLabels(D), InitialLabels(D) + 2}
        /\ nlab = nlab0 /\ step = 0 /\ s = <<>> /\ toks = <<>> /\ pe = [edges |-> <<>>, nlab |-> 0]
Example == /\ step < MaxSteps
           /\ s' \in Sents
           /\ toks' \in Golds(Len(s'))
           /\ pe' = PosEdges(D, s', STab(D, s', FALSE), toks', 1, 0, nlab)
           /\ nlab' = pe'.nlab /\ step' = step + 1
           /\ UNCHANGED <<D, mgl, nlab0>>
Next == Example
Spec == Init /\ [][Next]_vars

T == STab(D, s, FALSE)
Started == step > 0
Gold(k) == pe.edges[k]
IsSeed(lab) == lab <= Len(D.lex)
IsUnk(lab) == lab > Len(D.lex) /\ lab <= InitialLabels(D)
IsVirtual(lab) == lab > InitialLabels(D)

WellFormed == Started => ExampleOK(D, s, toks) /\ Len(pe.edges) = Len(toks) /\ GoldPathConnected(s, pe.edges)
(* a gold label stands for the gold token's FEATURES: a seed row with that feature string and
   first character, or an unknown entry of the first character's primary category whose cells
   admit the gold feature, or a fresh featureless label *)
GoldLabelSound ==
   Started => \A k \in 1..Len(toks) :
      LET e == Gold(k) IN
      /\ IsSeed(e.lab) => D.lex[e.lab].f = toks[k].f /\ D.lex[e.lab].s[1] = s[e.p + 1]
      /\ IsUnk(e.lab) => LET i == UnkByStoredId(D, e.lab - Len(D.lex) - 1) IN
                         D.unk[i].cat = T.bt[e.p + 1] /\ CellsCompatible(D.unk[i].f, toks[k].f)
      /\ IsVirtual(e.lab) => MapRows(D, toks[k].f, s[e.p + 1]) = {}
(* fresh labels are fresh: never reused, consecutive, and counted *)
VirtualFresh ==
   Started => LET V == {k \in 1..Len(toks) : IsVirtual(Gold(k).lab)} IN
              /\ \A j, k \in V : j # k => Gold(j).lab # Gold(k).lab
              /\ \A k \in V : Gold(k).lab <= nlab
              /\ \A k \in V : Gold(k).lab > nlab0               \* never a label handed out earlier
              /\ nlab = nlab0 + Cardinality(V)
(* a seed row in the lexicon always wins over the unknown entries and over virtual labels *)
SeedPreferred ==
   Started => \A k \in 1..Len(toks) : MapRows(D, toks[k].f, s[Gold(k).p + 1]) # {} => IsSeed(Gold(k).lab)
(* negative edges stay inside the sentence and move forward; every boundary has at least one
   outgoing edge, so every boundary can be left (the rule always offers an unknown word where
   the lexicon offers nothing and an unknown entry of the primary category exists) *)
NegativeSane ==
   Started => \A p \in 0..(Len(s) - 1) :
      LET neg == NegEdges(D, s, T, mgl, p) IN
      /\ \A e \in neg : p < e.t /\ e.t <= Len(s) /\ (IsSeed(e.lab) \/ IsUnk(e.lab))
      /\ (UnkOfCat(D, T.bt[p + 1]) # {} => neg # {})

(* ---- named deviations of the pinned code ---- *)
(* LabelByFirstChar: the label of a gold token is looked up by (feature string, first
   character); its surface is not compared, so the gold edge may carry the label of ANOTHER
   row (same features, therefore the same scores) and the token's own row then appears as a
   negative twin of the gold edge. *)
GoldNamesOwnRow ==
   ExactSurface /\ Started => \A k \in 1..Len(toks) :
      IsSeed(Gold(k).lab) => D.lex[Gold(k).lab].s = Slice(s, Gold(k).p, Gold(k).t)
(* UnknownGoldAnyLength: with group=1 any length is "compatible", so a gold unknown edge need not
   be one that gen_unk_words ever offers to the tokenizer *)
GoldUnkIsCandidate ==
   GoldGenerable /\ Started => \A k \in 1..Len(toks) :
      IsUnk(Gold(k).lab) => [t |-> Gold(k).t, lab |-> Gold(k).lab] \in NegEdges(D, s, T, mgl, Gold(k).p)
=============================================================================
