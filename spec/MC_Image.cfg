SPECIFICATION Spec
CONSTANTS
  MaxFields = 3
  MaxLen = 2
INVARIANTS OkIffComplete ForeignMagic
CHECK_DEADLOCK FALSE
