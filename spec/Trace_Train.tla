---------------------------- MODULE Trace_Train ----------------------------
(* Trace validation for the trainer tool chain: C17 (rewrite rules), C18 (templates and
   interning), C19 (corpus format). *)
EXTENDS VRewrite, VMecab, VCorpus, Json, IOUtils, TLCExt
CONSTANTS Prop

Rec == ndJsonDeserialize(IOEnv.TRACE)
VARIABLE l
Init == l = 1
E == Rec[l]
Is(e) == l <= Len(Rec) /\ E.ev = e /\ l' = l + 1
On(p) == Prop = "ALL" \/ Prop = p
A(p, n, x) == IF ~On(p) THEN TRUE ELSE IF x THEN TRUE ELSE Print(<<"FAILED-CLAUSE", p, n, l>>, FALSE)

(* C17: one event = one rule list (in one section of rewrite.def) against many feature lists *)
RewriteEv ==
   /\ Is("rewrite")
   /\ A("C17", "first-registered-matching-rule-applies",
        \A i \in 1..Len(E.cases) :
           LET c == E.cases[i]  want == Rewrite(E.rules, c.feats) IN
           c.hit = want.hit /\ c.out = want.out)
   /\ A("C17", "trie-walk-refines-first-match",
        LET trie == TLCEval(TrieOf(E.rules, FALSE)) IN
        \A i \in 1..Len(E.cases) : Dfs(trie, 1, 0, E.cases[i].feats) = FirstMatch(E.rules, E.cases[i].feats))

(* C18: expansion and interning *)
TabOf(m) == [k \in 1..Len(m) |-> (CHOOSE x \in RangeOf(m) : x.id = k).s]
ExpandEv ==
   /\ Is("expand")
   /\ LET want == Intern(E.T, E.rows) IN
      /\ A("C18", "template-expansion-and-ids", E.ids = want.ids)
      /\ A("C18", "equal-strings-equal-ids-different-strings-different-ids",
           /\ \A m \in {E.uni, E.left, E.right} : {x.id : x \in RangeOf(m)} = 1..Len(m)
           /\ TabOf(E.uni) = want.tabs.uni /\ TabOf(E.left) = want.tabs.left /\ TabOf(E.right) = want.tabs.right)

(* C17 / C18: Trainer::extract_feature_set as a whole.  Each of the three sections of
   rewrite.def is applied to the word's OWN feature list (and the list is used unchanged when
   no rule of that section matches - the fallback clause of C17); the templates are then
   expanded over the three results.  With `simple` templates (one plain reference each) the
   expanded strings are the rewritten cells themselves: that half is owned by C17, the half
   with arbitrary templates by C18. *)
FsetRows(rows, rules) ==
   [k \in 1..(3 * Len(rows)) |->
      LET i == (k + 2) \div 3  kind == (k + 2) % 3  r == rows[i]
          rs == IF kind = 0 THEN rules.uni ELSE IF kind = 1 THEN rules.left ELSE rules.right
      IN [kind |-> kind, feats |-> Rewrite(rs, r.cells).out, cate |-> r.cate]]
FsetEv ==
   /\ Is("fset")
   /\ LET want == Intern(E.T, FsetRows(E.rows, E.rules))
          owner == IF E.simple THEN "C17" ELSE "C18" IN
      /\ A(owner, "each-section-rewrites-the-word's-own-features-else-unchanged",
           \A i \in 1..Len(E.rows) :
              /\ E.ids[i].u = want.ids[3 * i - 2] /\ E.ids[i].l = want.ids[3 * i - 1] /\ E.ids[i].r = want.ids[3 * i])
      /\ A(owner, "interned-strings-are-the-expansions-of-the-rewritten-features",
           TabOf(E.uni) = want.tabs.uni /\ TabOf(E.left) = want.tabs.left /\ TabOf(E.right) = want.tabs.right)

(* C19 *)
CorpusEv ==
   /\ Is("corpus")
   /\ LET p == ParseCorpus(E.lines) IN
      /\ A("C19", "malformed-lines-rejected-wellformed-accepted", E.ok = p.ok)
      /\ (p.ok /\ E.ok =>
            /\ A("C19", "examples-as-specified", E.examples = p.examples)
            /\ A("C19", "write-reproduces-lines", E.written = WriteAll(p.examples, 1) /\ E.written_nl)
            /\ ("short_same" \in DOMAIN E => A("C19", "short-writes-are-completed", E.short_same))
            /\ A("C19", "reparse-gives-same-examples", E.reparse_ok /\ E.reparsed = p.examples)
            /\ ("toks" \in DOMAIN E.extra =>
                  A("C19", "tokenizer-output-parses-to-its-tokens",
                    /\ E.lines = MecabLines(E.extra.toks)
                    /\ E.examples = (IF E.extra.toks = <<>> THEN <<>> ELSE <<E.extra.toks>>))))

(* C19: bytes that are not valid UTF-8 (a file cut inside a multi-byte character, a line in another
   encoding) are a malformed input: an error, never the examples read so far *)
CorpusBytesEv ==
   /\ Is("corpus_bytes")
   /\ A("C19", "undecodable-bytes-are-reported-as-an-error", ~E.valid_utf8 => ~E.ok)

(* C20 *)
MecabEv ==
   /\ Is("mecab")
   /\ LET d == E.d  valid == TableOK(d.rtab) /\ TableOK(d.ltab) /\ ~E.malformed IN
      /\ A("C20", "bad-id-tables-rejected", ~valid => ~E.ok)
      /\ A("C20", "well-formed-description-accepted", valid => E.ok /\ E.compiled)
      /\ (valid /\ E.ok /\ E.compiled =>
            /\ A("C20", "ids-dense-and-complete", E.nr = Cardinality(Ids(d.rtab)) /\ E.nl = Cardinality(Ids(d.ltab)))
            /\ A("C20", "cost-is-sum-of-matching-model-lines",
                 \A r \in 1..(E.nr - 1), j \in 1..(E.nl - 1) : E.costs[j * E.nr + r + 1] = ExpectedCost(d, r, j)))

(* C19 at tool level: what `tokenize -O mecab` prints is a corpus; `split` distributes exactly its
   examples over three files with the stated sizes; `evaluate` on the tokenizer's own output
   reports precision = recall = F1 = 1. *)
CountIn(exs, x) == Cardinality({i \in 1..Len(exs) : exs[i] = x})
CliCorpusEv ==
   /\ Is("clicorpus")
   /\ LET c == ParseCorpus(E.lines)  n == Len(c.examples)
          tr == ParseCorpus(E.train)  va == ParseCorpus(E.valid)  te == ParseCorpus(E.test)
          nv == (n * E.vr8) \div 8  nt == (n * E.tr8) \div 8
      IN
      /\ A("C19", "tokenizer-output-is-a-corpus", E.tok_ok /\ c.ok)
      /\ (c.ok =>
            /\ A("C19", "split-accepts-tokenizer-output", E.split_ok = (nv + nt <= n))
            /\ (E.split_ok =>
                  /\ A("C19", "split-outputs-are-corpora-of-the-stated-sizes",
                       tr.ok /\ va.ok /\ te.ok /\ Len(va.examples) = nv /\ Len(te.examples) = nt /\ Len(tr.examples) = n - nv - nt)
                  /\ A("C19", "split-keeps-every-example-exactly-once",
                       \A x \in RangeOf(c.examples) \cup RangeOf(tr.examples) \cup RangeOf(va.examples) \cup RangeOf(te.examples) :
                          CountIn(c.examples, x) = CountIn(tr.examples, x) + CountIn(va.examples, x) + CountIn(te.examples, x)))
            /\ A("C19", "evaluate-accepts-tokenizer-output", E.eval_ok)
            /\ (n > 0 => A("C19", "tokenizer-agrees-with-itself", E.precision = "1" /\ E.recall = "1" /\ E.f1 = "1")))

Next == RewriteEv \/ ExpandEv \/ FsetEv \/ CorpusEv \/ CorpusBytesEv \/ MecabEv \/ CliCorpusEv
Spec == Init /\ [][Next]_l
Accepted ==
   LET d == TLCGet("stats").diameter IN
   IF d - 1 = Len(Rec) THEN TRUE
   ELSE Print(<<"REJECTED", d, ToJson(Rec[d])>>, FALSE)
============================================================================
