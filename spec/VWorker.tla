---------------------------- MODULE VWorker ----------------------------
(* Workers over one shared, immutable tokenizer (dictionary + options).
   Each worker owns its buffers exactly as vibrato's Worker does:
     sent  : the current sentence            (Sentence)
     top   : the result list                 (top_nodes, reported first-to-last here)
     lat   : the lattice buffer              (Lattice; survives an empty sentence)
     cnt   : the connection-id counter       (Option<ConnIdCounter>)
   Actions are the public calls.  The implementation-shaped part (DetBuild, CountLattice)
   follows the code; the invariants compare it with the declarative layer (VPath, VWorkerOps).

   Named deviations (all FALSE in the registered models):
     TokenizeAppends : tokenize() appends to the result list instead of replacing it (F1)
     StaleLattice    : tokenize() of an empty sentence leaves the previous lattice (F2)
     EosCountAtLen   : EOS evaluations are counted against ends[len] instead of
                       ends[eos.start_node] (F3) *)
EXTENDS VWorkerOps, SequencesExt
CONSTANTS Workers, WDict, WOpts, WSents,
          TokenizeAppends, StaleLattice, EosCountAtLen

VARIABLES wsent, wtk, wtop, wlat, wcnt, wexp
wvars == <<wsent, wtk, wtop, wlat, wcnt, wexp>>
wview == <<wsent, wtk, wtop, wlat, wcnt, wexp>>

NoLat == [len |-> -1, ends |-> <<>>, eos |-> [sn |-> 0, mi |-> 0, mc |-> 0]]
NoCnt == [on |-> FALSE, lc |-> <<>>, rc |-> <<>>]
ZeroL == [i \in 0..(WDict.nl - 1) |-> 0]
ZeroR == [i \in 0..(WDict.nr - 1) |-> 0]

(* Lattice::add_connid_counts, shaped after the code *)
CountLattice(L, c) ==
   IF L.len < 0 THEN c       \* never built: (the real code would panic; not modelled)
   ELSE
   LET pairs == {<<b, i, j>> \in (1..L.len) \X (1..64) \X (1..64) :
                    /\ i <= Len(L.ends[b + 1])
                    /\ j <= Len(L.ends[L.ends[b + 1][i].sn + 1])}
       eosAt == IF EosCountAtLen THEN L.len ELSE L.eos.sn
       lc1 == [x \in 0..(WDict.nl - 1) |-> c.lc[x] + Cardinality({p \in pairs : L.ends[p[1] + 1][p[2]].l = x})
                                          + (IF x = 0 /\ L.len > 0 THEN Len(L.ends[eosAt + 1]) ELSE 0)]
       rc1 == [x \in 0..(WDict.nr - 1) |-> c.rc[x]
                  + Cardinality({p \in pairs : L.ends[L.ends[p[1] + 1][p[2]].sn + 1][p[3]].r = x})
                  + (IF L.len > 0 THEN Cardinality({j \in 1..Len(L.ends[eosAt + 1]) : L.ends[eosAt + 1][j].r = x}) ELSE 0)]
   IN [on |-> TRUE, lc |-> lc1, rc |-> rc1]

(* --------------------------------- actions --------------------------------- *)
WInit == /\ wsent = [w \in Workers |-> <<>>]
         /\ wtk = [w \in Workers |-> FALSE]
         /\ wtop = [w \in Workers |-> <<>>]
         /\ wlat = [w \in Workers |-> NoLat]
         /\ wcnt = [w \in Workers |-> NoCnt]
         /\ wexp = [w \in Workers |-> NoCnt]

ResetSentence(w, s) ==
   /\ wsent' = [wsent EXCEPT ![w] = s]
   /\ wtop' = [wtop EXCEPT ![w] = <<>>]
   /\ wtk' = [wtk EXCEPT ![w] = FALSE]
   /\ UNCHANGED <<wlat, wcnt, wexp>>

Tokenize(w) ==
   LET s == wsent[w] IN
   /\ wtk' = [wtk EXCEPT ![w] = TRUE]
   /\ IF Len(s) = 0
      THEN /\ wtop' = (IF TokenizeAppends THEN wtop ELSE [wtop EXCEPT ![w] = <<>>])
           /\ wlat' = (IF StaleLattice THEN wlat
                       ELSE [wlat EXCEPT ![w] = [len |-> 0, ends |-> << <<BosNode>> >>, eos |-> NoLat.eos]])
      ELSE LET L == DetBuild(WDict, WOpts, s)
               t == TopOf(L, L.eos.sn, L.eos.mi)
           IN /\ wlat' = [wlat EXCEPT ![w] = L]
              /\ wtop' = [wtop EXCEPT ![w] = IF TokenizeAppends THEN @ \o t ELSE t]
   /\ UNCHANGED <<wsent, wcnt, wexp>>

InitCounter(w) ==
   /\ wcnt' = [wcnt EXCEPT ![w] = [on |-> TRUE, lc |-> ZeroL, rc |-> ZeroR]]
   /\ wexp' = [wexp EXCEPT ![w] = [on |-> TRUE, lc |-> ZeroL, rc |-> ZeroR]]
   /\ UNCHANGED <<wsent, wtk, wtop, wlat>>

(* documented use: after a tokenize of the current sentence *)
UpdateCounts(w) ==
   /\ wcnt[w].on /\ wtk[w]
   /\ wcnt' = [wcnt EXCEPT ![w] = CountLattice(wlat[w], @)]
   /\ LET e == EvalCounts(WDict, WOpts, wsent[w]) IN
      wexp' = [wexp EXCEPT ![w] = [on |-> TRUE,
                                   lc |-> [x \in 0..(WDict.nl - 1) |-> @.lc[x] + e.lc[x]],
                                   rc |-> [x \in 0..(WDict.nr - 1) |-> @.rc[x] + e.rc[x]]]]
   /\ UNCHANGED <<wsent, wtk, wtop, wlat>>

WStep(w) == \/ \E s \in WSents : ResetSentence(w, s)
            \/ Tokenize(w)
            \/ InitCounter(w)
            \/ UpdateCounts(w)
WNext == \E w \in Workers : WStep(w)
WSpec == WInit /\ [][WNext]_wvars

(* -------------------------------- properties -------------------------------- *)
(* C04: the result is a function of (dictionary, options, sentence) alone *)
Determinism == \A w \in Workers : wtk[w] => wtop[w] = DetTokens(WDict, WOpts, wsent[w])
(* ... and it is a valid optimal segmentation in the sense of the declarative layer *)
ResultValid == \A w \in Workers : wtk[w] /\ Len(wsent[w]) > 0 =>
   LET s == wsent[w]  T == STab(WDict, s, FALSE)  t == wtop[w] IN
   /\ ChainOK(WDict, WOpts, s, T, t, 1, 0, 0) /\ PrefixCostOK(WDict, t)
   /\ ChainTotal(WDict, t) = OptCost(WDict, WOpts, s, T)
   /\ PartitionOK(WDict, WOpts, s, T, t)
(* workers never observe each other *)
Isolation == [][\A w \in Workers : (wsent'[w] # wsent[w] \/ wtop'[w] # wtop[w] \/ wlat'[w] # wlat[w] \/ wcnt'[w] # wcnt[w])
                   => \A v \in Workers \ {w} : wsent'[v] = wsent[v] /\ wtop'[v] = wtop[v] /\ wlat'[v] = wlat[v] /\ wcnt'[v] = wcnt[v]]_wvars
(* C13: the operational counter equals the declarative sum of evaluations *)
CountsExact == \A w \in Workers : wcnt[w] = wexp[w]
========================================================================
