---------------------------- MODULE VModel ----------------------------
(* The trained model and what it generates (C14 C15 C16 C18).
   m : [ W    : Seq(Int)                 weights (quantised to integers), 0-based index widx -> W[widx + 1]
         uwi  : Seq(Nat)                 unigram feature id fid -> 1-based weight index (0 = none)
         bwi  : Seq(Seq(<<b, widx>>))    bwi[a + 1] : pairs (b, 0-based weight index); a = feature id on the
                                         LEFT word's side (0 = BOS), b = feature id on the RIGHT word's side (0 = EOS)
         fs   : Seq([u, r, l])           one feature set per label: unigram ids, bigram_right ids, bigram_left ids (0 = none)
         nseed, nunk, nuser, userlabels, umap, lmap, rmap ]
   Labels 1..nseed are the seed lexicon rows, nseed+1..nseed+nunk the seed unknown entries (stored order). *)
EXTENDS VBase, VCost

(* Abs, Sgn, TruncDiv and the cost scaling CostOfW live in VCost (no RECURSIVE operator), where
   VCost_proofs proves the 16-bit bound and the sign rule for ALL integer weights *)

(* ---- RawModel::merge ---- *)
UniWeight(m, f) == SumTo([k \in 1..Len(f.u) |-> IF f.u[k] <= Len(m.uwi) /\ m.uwi[f.u[k]] # 0 THEN m.W[m.uwi[f.u[k]]] ELSE 0], 1, Len(f.u))
RECURSIVE Distinct(_, _, _)
Distinct(tuples, i, acc) == IF i > Len(tuples) THEN acc
                            ELSE IF \E k \in 1..Len(acc) : acc[k] = tuples[i] THEN Distinct(tuples, i + 1, acc)
                            ELSE Distinct(tuples, i + 1, Append(acc, tuples[i]))
LC(m) == Distinct([i \in 1..Len(m.fs) |-> m.fs[i].r], 1, <<>>)     \* left connection classes: tuples of right-side feature ids
RC(m) == Distinct([i \in 1..Len(m.fs) |-> m.fs[i].l], 1, <<>>)     \* right connection classes: tuples of left-side feature ids
ClassOf(cls, t) == CHOOSE k \in 1..Len(cls) : cls[k] = t
BwIdx(m, a, b) == IF a + 1 > Len(m.bwi) THEN {} ELSE {k \in 1..Len(m.bwi[a + 1]) : m.bwi[a + 1][k][1] = b}
Bw(m, a, b) == LET ks == BwIdx(m, a, b) IN IF ks = {} THEN 0 ELSE m.W[m.bwi[a + 1][CHOOSE k \in ks : TRUE][2] + 1]
(* cell of the merged matrix: i = right connection id of the left word (0 = BOS), j = left id of the right word (0 = EOS) *)
Cell(m, lc, rc, i, j) ==
   IF i = 0 /\ j = 0 THEN 0
   ELSE IF i = 0 THEN SumTo([k \in 1..Len(lc[j]) |-> IF lc[j][k] # 0 THEN Bw(m, 0, lc[j][k]) ELSE 0], 1, Len(lc[j]))
   ELSE IF j = 0 THEN SumTo([k \in 1..Len(rc[i]) |-> IF rc[i][k] # 0 THEN Bw(m, rc[i][k], 0) ELSE 0], 1, Len(rc[i]))
   ELSE LET n == Min2(Len(rc[i]), Len(lc[j])) IN
        SumTo([k \in 1..n |-> IF rc[i][k] # 0 /\ lc[j][k] # 0 THEN Bw(m, rc[i][k], lc[j][k]) ELSE 0], 1, n)

(* everything the generators need, evaluated once *)
Merged(m) ==
   LET lc == TLCEval(LC(m))  rc == TLCEval(RC(m))
       lw == TLCEval([i \in 1..Len(m.fs) |-> UniWeight(m, m.fs[i])])
       nr == Len(rc) + 1  nl == Len(lc) + 1
       cells == TLCEval([x \in 1..(nr * nl) |-> Cell(m, lc, rc, (x - 1) % nr, (x - 1) \div nr)])
       mx == SetMax({0} \cup {Abs(lw[i]) : i \in 1..Len(lw)} \cup {Abs(cells[x]) : x \in 1..(nr * nl)})
   IN [lc |-> lc, rc |-> rc, lw |-> lw, nr |-> nr, nl |-> nl, cells |-> cells, maxabs |-> mx,
       lid |-> [i \in 1..Len(m.fs) |-> ClassOf(lc, m.fs[i].r)], rid |-> [i \in 1..Len(m.fs) |-> ClassOf(rc, m.fs[i].l)]]

(* ---- cost scaling: cost = trunc(-w * 32767 / maxabs).  With integer weights the exact
   quotient is either an integer (then the float evaluation may land one short) or at least
   1/maxabs away from one. ---- *)
CostOf(M, w) == CostOfW(M.maxabs, w)
CostOK(M, c, w) == LET q == CostOf(M, w) IN
                   \/ c = q
                   \/ (M.maxabs # 0 /\ q # 0 /\ (Abs(w) * 32767) % M.maxabs = 0 /\ c = q - Sgn(q))

(* ---- names of feature ids; a feature pruned by training has no name ---- *)
NameOf(map, id) == IF \E k \in 1..Len(map) : map[k].id = id THEN map[CHOOSE k \in 1..Len(map) : map[k].id = id].s ELSE "\\pruned"
(* a class tuple as write_bigram_details prints it ('*' for no feature; '*' alone for the empty tuple) *)
RowText(map, t) == IF t = <<>> THEN <<"*">> ELSE [k \in 1..Len(t) |-> IF t[k] = 0 THEN "*" ELSE NameOf(map, t[k])]
(* bigram.cost lines: one per entry of bwi *)
CostLines(m) ==
   UNION {{[rf |-> IF a = 0 THEN "" ELSE NameOf(m.lmap, a),
            lf |-> IF m.bwi[a + 1][k][1] = 0 THEN "" ELSE NameOf(m.rmap, m.bwi[a + 1][k][1]),
            w  |-> m.W[m.bwi[a + 1][k][2] + 1]] : k \in 1..Len(m.bwi[a + 1])} : a \in 0..(Len(m.bwi) - 1)}
=======================================================================
