SPECIFICATION Spec
CONSTANTS
  MaxOps = 4
  DevMapperReplaced = FALSE
INVARIANTS MapInvariant UserAsSystem IdsInRange
VIEW view
CHECK_DEADLOCK FALSE
