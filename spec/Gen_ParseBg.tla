---------------------------- MODULE Gen_ParseBg ----------------------------
(* C10 for the bigram builder (from_readers_with_bigram_info, raw and dual): all single
   token-level edits of a small valid set lex.csv / bigram.right / bigram.left / bigram.cost /
   char.def / unk.def, each with its class.
   bigram.right / bigram.left line : <<id, feature, feature, ...>>   rendered  id TAB f,f,...
   bigram.cost line                : <<right feature, left feature, cost>>   rendered  rf/lf TAB cost
   The number of right (left) ids is the number of bigram.right (bigram.left) lines + 1 when
   every line carries its own 1-based position; otherwise the file is malformed. *)
EXTENDS VParse, Json

BaseF == [ char   |-> << <<"DEFAULT", "0", "1", "0">>, <<"ALPHA", "1", "1", "2">>, <<"0x0061..0x007A", "ALPHA">> >>,
           right  |-> << <<"1", "A", "B">>, <<"2", "C", "*">> >>,
           left   |-> << <<"1", "a", "b">> >>,
           cost   |-> << <<"A", "a", "-5">>, <<"", "a", "7">>, <<"B", "b", "3">> >>,
           lex    |-> << <<"a", "1", "2", "5", "N">>, <<"ab", "0", "1", "-3", "V">> >>,
           unk    |-> << <<"DEFAULT", "0", "0", "10", "u">>, <<"ALPHA", "1", "1", "4", "al">> >> ]
Files == {"char", "right", "left", "cost", "lex", "unk"}
Pool == {"-1", "0", "2", "3", "65535", "65536", "99999999999", "x", "", "1"}

DropAt(q, i) == SubSeq(q, 1, i - 1) \o SubSeq(q, i + 1, Len(q))
InsertAt(q, i, x) == SubSeq(q, 1, i - 1) \o <<x>> \o SubSeq(q, i, Len(q))
Edits == {[f |-> "char", op |-> "none", i |-> 0, k |-> 0, v |-> ""]}
   \cup {[f |-> f, op |-> "empty", i |-> 0, k |-> 0, v |-> ""] : f \in Files}
   \cup UNION {{[f |-> f, op |-> o, i |-> i, k |-> 0, v |-> ""] : i \in 1..Len(BaseF[f]), o \in {"dropline", "dupline", "cutafter"}} : f \in Files}
   \cup UNION {UNION {{[f |-> f, op |-> "droptok", i |-> i, k |-> k, v |-> ""] : k \in 1..Len(BaseF[f][i])} : i \in 1..Len(BaseF[f])} : f \in Files}
   \cup UNION {UNION {{[f |-> f, op |-> "settok", i |-> i, k |-> k, v |-> v] : k \in 1..Len(BaseF[f][i]), v \in Pool} : i \in 1..Len(BaseF[f])} : f \in {"right", "left", "cost", "lex", "unk"}}
   \cup UNION {{[f |-> f, op |-> "addtok", i |-> i, k |-> 0, v |-> v] : i \in 1..Len(BaseF[f]), v \in {"7", ""}} : f \in Files}
Apply(F, e) ==
   LET q == F[e.f] IN
   CASE e.op = "none" -> F
     [] e.op = "empty" -> [F EXCEPT ![e.f] = <<>>]
     [] e.op = "dropline" -> [F EXCEPT ![e.f] = DropAt(q, e.i)]
     [] e.op = "dupline" -> [F EXCEPT ![e.f] = InsertAt(q, e.i, q[e.i])]
     [] e.op = "cutafter" -> [F EXCEPT ![e.f] = SubSeq(q, 1, e.i)]
     [] e.op = "droptok" -> [F EXCEPT ![e.f][e.i] = DropAt(q[e.i], e.k)]
     [] e.op = "settok" -> [F EXCEPT ![e.f][e.i][e.k] = e.v]
     [] e.op = "addtok" -> [F EXCEPT ![e.f][e.i] = Append(q[e.i], e.v)]

(* ids are dense and ascending: line i carries the numeral i *)
Numbered(ls) == \A i \in 1..Len(ls) : Len(ls[i]) >= 2 /\ IsNum(ls[i][1]) /\ NumVal(ls[i][1]) = i
BgMustErr(F) == /\ Numbered(F.right) /\ Numbered(F.left)
                /\ (RowIdsOutside(F.lex, Len(F.right) + 1, Len(F.left) + 1) \/ RowIdsOutside(F.unk, Len(F.right) + 1, Len(F.left) + 1))
ClassBg(F0) == LET F == NormChar(F0) IN
               IF F = BaseF THEN "VALID"
               ELSE IF BgMustErr(F) \/ CharMustErr(F) \/ UnkUndefinedCat(F) THEN "MUST_ERR"
               ELSE IF MissingUnk(F) THEN "MUST_ERR_F12" ELSE "DONT_CARE"

VARIABLE e1
Init == e1 \in Edits
Next == UNCHANGED e1
Spec == Init /\ [][Next]_e1
Result == Apply(BaseF, e1)
Case == [files |-> Result, class |-> ClassBg(Result), nofinal |-> e1.op = "cutafter", edit |-> e1, edit2 |-> [f |-> "char", op |-> "none", i |-> 0, k |-> 0, v |-> ""], bigram |-> TRUE]
Emit == PrintT(<<"GEN", ToJson(Case)>>)
BaseValid == ~BgMustErr(BaseF) /\ ~CharMustErr(BaseF) /\ ~MissingUnk(BaseF) /\ Numbered(BaseF.right) /\ Numbered(BaseF.left)
============================================================================
