---------------------------- MODULE VLattice ----------------------------
(* The lattice machine: Tokenizer::build_lattice_inner / Lattice::insert_node /
   search_min_node / insert_eos / append_top_nodes, one action per critical section.
   Tie-breaks (min_idx among equally cheap predecessors) and the insertion order inside one
   iteration are nondeterministic: the properties do not fix them.

   Dicts, Optss, Sents are the finite scopes of a model (defined by the MC module). *)
EXTENDS VPath
CONSTANTS Dicts, Optss, Sents

VARIABLES D, O, s,          \* inputs, fixed after Init
          pc,               \* "scan" | "eos" | "back" | "done" | "stuck"
          sn, sw,           \* start_node, start_word
          ends,             \* ends[b] = sequence of nodes ending at boundary b (0..N)
          eos,              \* EOS node (or BOS placeholder before it is set)
          top,              \* result: nodes from first to last token
          lc, rc            \* ghost: connection-cost evaluations per left / right id (C13)
vars == <<D, O, s, pc, sn, sw, ends, eos, top, lc, rc>>
view == <<D, O, s, pc, sn, sw, ends, eos, top>>

N == Len(s)
T == STab(D, s, FALSE)
BOS == [sn |-> -1, sw |-> -1, e |-> 0, lt |-> 9, id |-> 0, l |-> -1, r |-> 0, c |-> 0, mi |-> 0, mc |-> 0]

Init == /\ D \in Dicts /\ O \in Optss /\ s \in Sents
        /\ pc = (IF Len(s) = 0 THEN "done" ELSE "scan")      \* Worker::tokenize returns early on ""
        /\ sn = 0 /\ sw = 0
        /\ ends = [b \in 0..Len(s) |-> IF b = 0 THEN <<BOS>> ELSE <<>>]
        /\ eos = BOS /\ top = <<>>
        /\ lc = [i \in 0..(D.nl - 1) |-> 0] /\ rc = [i \in 0..(D.nr - 1) |-> 0]

(* search_min_node: all (index, cost) minimisers over ends[at] for left id l *)
Mins(E, at, l) ==
   LET cs == {<<i, E[at][i].mc + Conn(D, E[at][i].r, l)>> : i \in 1..Len(E[at])}
       m  == SetMin({x[2] : x \in cs})
   IN {x \in cs : x[2] = m}

(* insert a set of candidates one at a time; result = set of possible `ends` *)
RECURSIVE Ins(_, _, _, _)
Ins(E, cs, at, q) ==
   IF cs = {} THEN {E}
   ELSE UNION { UNION { Ins([E EXCEPT ![w.e] = Append(@,
                              [sn |-> at, sw |-> q, e |-> w.e, lt |-> w.lt, id |-> w.id,
                               l |-> w.l, r |-> w.r, c |-> w.c, mi |-> m[1], mc |-> m[2] + w.c])],
                            cs \ {w}, at, q)
                        : m \in Mins(E, at, w.l) }
                : w \in cs }
(* canonical insertion order only (smaller state space): tie-breaks still free *)
RECURSIVE InsCanon(_, _, _, _)
InsCanon(E, cs, at, q) ==
   IF cs = {} THEN {E}
   ELSE LET w == CHOOSE w \in cs : TRUE IN
        UNION { InsCanon([E EXCEPT ![w.e] = Append(@,
                              [sn |-> at, sw |-> q, e |-> w.e, lt |-> w.lt, id |-> w.id,
                               l |-> w.l, r |-> w.r, c |-> w.c, mi |-> m[1], mc |-> m[2] + w.c])],
                         cs \ {w}, at, q)
                : m \in Mins(E, at, w.l) }

CountEdges(cs, at) ==
   /\ lc' = [i \in DOMAIN lc |-> lc[i] + Len(ends[at]) * Cardinality({w \in cs : w.l = i})]
   /\ rc' = [i \in DOMAIN rc |-> rc[i] + Cardinality(cs) * Cardinality({j \in 1..Len(ends[at]) : ends[at][j].r = i})]

IterUnreachable ==
   /\ pc = "scan" /\ sw < N /\ ends[sn] = <<>>
   /\ sw' = sw + 1 /\ sn' = sw + 1
   /\ UNCHANGED <<D, O, s, pc, ends, eos, top, lc, rc>>

IterTrailingSpace ==
   /\ pc = "scan" /\ sw < N /\ ends[sn] # <<>>
   /\ NextStart(D, O, s, T, sn) = N
   /\ pc' = "eos"
   /\ UNCHANGED <<D, O, s, sn, sw, ends, eos, top, lc, rc>>

IterEdges ==
   /\ pc = "scan" /\ sw < N /\ ends[sn] # <<>>
   /\ LET q == NextStart(D, O, s, T, sn) IN
      /\ q < N
      /\ LET cs == CandsAt(D, O, s, T, q) IN
         IF cs = {} THEN /\ pc' = "stuck"                 \* named deviation Stuck (F12)
                         /\ UNCHANGED <<sn, sw, ends, lc, rc>>
         ELSE /\ ends' \in InsCanon(ends, cs, sn, q)
              /\ CountEdges(cs, sn)
              /\ sw' = q + 1 /\ sn' = q + 1 /\ UNCHANGED pc
   /\ UNCHANGED <<D, O, s, eos, top>>

ScanEnd == /\ pc = "scan" /\ sw >= N /\ pc' = "eos"
           /\ UNCHANGED <<D, O, s, sn, sw, ends, eos, top, lc, rc>>

InsertEOS ==
   /\ pc = "eos"
   /\ IF ends[sn] = <<>> THEN pc' = "stuck" /\ UNCHANGED <<eos, lc, rc>>
      ELSE /\ \E m \in Mins(ends, sn, 0) :
                 eos' = [BOS EXCEPT !.sn = sn, !.sw = N, !.l = 0, !.mi = m[1], !.mc = m[2]]
           /\ pc' = "back"
           /\ lc' = [lc EXCEPT ![0] = @ + Len(ends[sn])]
           /\ rc' = [i \in DOMAIN rc |-> rc[i] + Cardinality({j \in 1..Len(ends[sn]) : ends[sn][j].r = i})]
   /\ UNCHANGED <<D, O, s, sn, sw, ends, top>>

RECURSIVE Walk(_, _, _)
Walk(E, at, mi) == IF at = 0 THEN <<>> ELSE LET n == E[at][mi] IN Append(Walk(E, n.sn, n.mi), n)
Backtrace == /\ pc = "back" /\ top' = Walk(ends, eos.sn, eos.mi) /\ pc' = "done"
             /\ UNCHANGED <<D, O, s, sn, sw, ends, eos, lc, rc>>

Next == IterUnreachable \/ IterTrailingSpace \/ IterEdges \/ ScanEnd \/ InsertEOS \/ Backtrace
Spec == Init /\ [][Next]_vars /\ WF_vars(Next)

(* ------------------------------ properties ------------------------------ *)
Toks == [i \in 1..Len(top) |-> [b |-> top[i].sw, e |-> top[i].e, lt |-> top[i].lt, id |-> top[i].id,
                                l |-> top[i].l, r |-> top[i].r, c |-> top[i].c, tot |-> top[i].mc]]

(* C01 *)
NoStuck == UnkComplete(D, s, T.bt) => pc # "stuck"
Partition == pc = "done" => PartitionOK(D, O, s, T, Toks)
Termination == <>(pc \in {"done", "stuck"})
(* C02: the machine's optimum against the independent dynamic programme, and against a
   brute-force minimum over all chains *)
RECURSIVE Brute(_, _)
Brute(e, r) ==
   IF e = N THEN Conn(D, r, 0)
   ELSE LET q == NextStart(D, O, s, T, e) IN
        IF q = N THEN Conn(D, r, 0)
        ELSE LET cs == CandsAt(D, O, s, T, q) IN
             IF cs = {} THEN INF
             ELSE SetMin({Min2(INF, Conn(D, r, w.l) + w.c + Brute(w.e, w.r)) : w \in cs})
Optimal == pc = "done" /\ N > 0 => /\ eos.mc = Brute(0, 0)
                                   /\ eos.mc = OptCost(D, O, s, T)
                                   /\ eos.mc = ChainTotal(D, Toks)
PrefixCost == pc = "done" => PrefixCostOK(D, Toks)
(* C03 on the machine: the reported tokens are candidates and follow the scan rule *)
Chain == pc = "done" /\ N > 0 => ChainOK(D, O, s, T, Toks, 1, 0, 0)
(* C13 ghost: total evaluations seen from the left side = from the right side *)
CountsBalanced == SumTo([i \in 1..D.nl |-> lc[i - 1]], 1, D.nl) = SumTo([i \in 1..D.nr |-> rc[i - 1]], 1, D.nr)
==========================================================================
