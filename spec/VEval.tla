---------------------------- MODULE VEval ----------------------------
(* The `evaluate` tool (extended coverage; no listed property speaks about its numbers).
   A reference corpus is compared with the tokenizer's output sentence by sentence: a token is
   the triple (start, end, chosen features); precision = common / system tokens, recall =
   common / reference tokens, F1 = 2PR/(P+R), all summed over the corpus.
   Features are CSV rows (code-point sequences) split into unquoted cells as csv_core does;
   with --feature-indices i,j,... the chosen features are cells i, j, ... ("*" where absent),
   otherwise all cells. *)
EXTENDS VCsv

(* cells of a one-record CSV text (no line feed inside) *)
RECURSIVE CellsFrom(_, _, _, _, _)
CellsFrom(text, i, st, fld, flds) ==
   IF i > Len(text) THEN Append(flds, fld)
   ELSE LET c == text[i] IN
      IF st = "fs" THEN
         (IF c = QUOTE THEN CellsFrom(text, i + 1, "q", <<>>, flds)
          ELSE IF c = COMMA THEN CellsFrom(text, i + 1, "fs", <<>>, Append(flds, <<>>))
          ELSE CellsFrom(text, i + 1, "u", <<c>>, flds))
      ELSE IF st = "u" THEN
         (IF c = COMMA THEN CellsFrom(text, i + 1, "fs", <<>>, Append(flds, fld))
          ELSE CellsFrom(text, i + 1, "u", Append(fld, c), flds))
      ELSE IF st = "q" THEN
         (IF c = QUOTE THEN CellsFrom(text, i + 1, "aq", fld, flds)
          ELSE CellsFrom(text, i + 1, "q", Append(fld, c), flds))
      ELSE
         (IF c = QUOTE THEN CellsFrom(text, i + 1, "q", Append(fld, QUOTE), flds)
          ELSE IF c = COMMA THEN CellsFrom(text, i + 1, "fs", <<>>, Append(flds, fld))
          ELSE CellsFrom(text, i + 1, "u", Append(fld, c), flds))
CsvCells(text) == CellsFrom(text, 1, "fs", <<>>, <<>>)

STAR == <<42>>
Chosen(cells, idx) == IF idx = <<>> THEN cells
                      ELSE [k \in 1..Len(idx) |-> IF idx[k] + 1 <= Len(cells) THEN cells[idx[k] + 1] ELSE STAR]

(* tokens [n, f] (length in characters, feature text) -> set of <<start, end, chosen cells>> *)
RECURSIVE Spans(_, _, _, _)
Spans(toks, k, pos, idx) ==
   IF k > Len(toks) THEN {}
   ELSE {<<pos, pos + toks[k].n, Chosen(CsvCells(toks[k].f), idx)>>} \cup Spans(toks, k + 1, pos + toks[k].n, idx)

(* totals over the corpus: ref[i], sys[i] are the token lists of sentence i *)
RECURSIVE Totals(_, _, _, _, _)
Totals(ref, sys, idx, i, acc) ==
   IF i > Len(ref) THEN acc
   ELSE LET R == Spans(ref[i], 1, 0, idx)  S == Spans(sys[i], 1, 0, idx) IN
        Totals(ref, sys, idx, i + 1, [nref |-> acc.nref + Cardinality(R), nsys |-> acc.nsys + Cardinality(S),
                                      ncor |-> acc.ncor + Cardinality(R \cap S)])
Counts(ref, sys, idx) == Totals(ref, sys, idx, 1, [nref |-> 0, nsys |-> 0, ncor |-> 0])

(* a printed value, recovered as the fraction num/den, equals a/b *)
SameRatio(num, den, a, b) == b # 0 /\ den # 0 /\ num * b = a * den
MetricsOK(c, prec, rec, f1) ==
   /\ c.nsys > 0 /\ c.nref > 0
   /\ SameRatio(prec[1], prec[2], c.ncor, c.nsys)
   /\ SameRatio(rec[1], rec[2], c.ncor, c.nref)
   /\ (c.ncor > 0 => SameRatio(f1[1], f1[2], 2 * c.ncor, c.nsys + c.nref))
======================================================================
