---------------------------- MODULE Gen_ModelHist ----------------------------
(* C15: all histories of {generate (0), write_model;read_model (1), read_user_lexicon (2)} up to
   Depth, over two copies of a model - the in-memory one and the most recently reloaded one.
   The abstract state of a copy is (ext, users): the sequence of user-lexicon loads that
   extended its feature provider (persisted by write_model) and the user rows it currently
   holds (not persisted).  Generated files are a function Out of that state; the invariant
   states which outputs the history makes comparable, and every history is printed for the
   replayer. *)
EXTENDS VBase, Json
CONSTANTS Depth

VARIABLES ext, users, hasDisk, hist, seen
vars == <<ext, users, hasDisk, hist, seen>>
Init == ext = [mem |-> 0, disk |-> 0] /\ users = [mem |-> 0, disk |-> 0] /\ hasDisk = FALSE /\ hist = <<>> /\ seen = {}

(* uninterpreted outputs: dictionary files depend on the provider extension only, the user file also on the rows held *)
Out(e, u) == [files |-> <<"files", e>>, user |-> <<"user", e, u>>]
Generate == /\ seen' = seen \cup {<<"mem", ext.mem, users.mem>>} \cup (IF hasDisk THEN {<<"disk", ext.disk, users.disk>>} ELSE {})
            /\ hist' = Append(hist, 0) /\ UNCHANGED <<ext, users, hasDisk>>
WriteRead == /\ ext' = [ext EXCEPT !.disk = IF hasDisk THEN ext.disk ELSE ext.mem]
             /\ users' = [users EXCEPT !.disk = 0] /\ hasDisk' = TRUE
             /\ hist' = Append(hist, 1) /\ UNCHANGED seen
AddUser == /\ ext' = [mem |-> ext.mem + 1, disk |-> IF hasDisk THEN ext.disk + 1 ELSE ext.disk]
           /\ users' = [mem |-> users.mem + 1, disk |-> IF hasDisk THEN users.disk + 1 ELSE users.disk]
           /\ hist' = Append(hist, 2) /\ UNCHANGED <<hasDisk, seen>>
Next == Len(hist) < Depth /\ (Generate \/ WriteRead \/ AddUser)
Spec == Init /\ [][Next]_vars

(* whenever both copies were generated from, equal abstract states mean equal files *)
Comparable == \A a \in seen, b \in seen : (a[2] = b[2]) => Out(a[2], a[3]).files = Out(b[2], b[3]).files
(* a reloaded copy never has a longer extension history than the in-memory model *)
DiskBehind == hasDisk => ext.disk <= ext.mem
Emit == (Len(hist) = Depth /\ \E i \in 1..Len(hist) : hist[i] = 0) => PrintT(<<"GEN", ToJson([hist |-> hist])>>)
==============================================================================
