---------------------------- MODULE VDictOps ----------------------------
(* Lifecycle of a dictionary value (C05 C06 C08): user lexicon, id remapping, write/read.
   The abstract dictionary D of VCand/VConn is extended with
     D.pl, D.pr : the composition of all id mappings applied so far (old id -> new id,
                  sequences indexed by id + 1); identity for a freshly built dictionary.
   All operators are pure; the trace specification and the models thread D through them. *)
EXTENDS VWorkerOps

IdPerm(n) == [i \in 1..n |-> i - 1]
WithIdentity(D) == [x \in DOMAIN D \cup {"pl", "pr"} |->
                      IF x = "pl" THEN IdPerm(D.nl) ELSE IF x = "pr" THEN IdPerm(D.nr) ELSE D[x]]

(* ---- user lexicon (C08) ---------------------------------------------------------
   rows carry ids in the numbering of the ORIGINAL definition files; they are valid iff
   they lie inside the connector; they are stored translated through the composite mapping *)
RowsValid(D, rows) == \A i \in 1..Len(rows) : rows[i].l < D.nl /\ rows[i].r < D.nr /\ Len(rows[i].s) > 0
Translate(D, rows) == [i \in 1..Len(rows) |-> [rows[i] EXCEPT !.l = D.pl[rows[i].l + 1], !.r = D.pr[rows[i].r + 1]]]
SetUser(D, rows) == [D EXCEPT !.user = Translate(D, rows)]
ClearUser(D) == [D EXCEPT !.user = <<>>]

(* ---- id remapping (C06) ---------------------------------------------------------
   ll, rl : the lists given to map_connection_ids_from_iter; item i (1-origin) is the OLD
   id that becomes NEW id i *)
MapValid(D, ll, rl) == ValidList(ll, D.nl) /\ ValidList(rl, D.nr)
MapWords(ws, pl, pr) == [i \in 1..Len(ws) |-> [ws[i] EXCEPT !.l = pl[ws[i].l + 1], !.r = pr[ws[i].r + 1]]]
MapDict(D, ll, rl) ==
   LET pl == PermOfList(ll)  pr == PermOfList(rl) IN
   [D EXCEPT !.lex = MapWords(D.lex, pl, pr), !.user = MapWords(D.user, pl, pr),
             !.unk = MapWords(D.unk, pl, pr), !.mat = MapMat(D, pl, pr),
             !.pl = Compose(pl, D.pl), !.pr = Compose(pr, D.pr)]

(* ---- what a dictionary shows of itself (hooks H2, H8 and word_feature) ----------- *)
ProjWords(ws) == [i \in 1..Len(ws) |-> [l |-> ws[i].l, r |-> ws[i].r, c |-> ws[i].c, f |-> ws[i].f]]
(* unknown entries in STORED order *)
UnkStored(D) == [k \in 1..Len(D.unk) |-> LET i == UnkByStoredId(D, k - 1) IN
                   [cat |-> D.unk[i].cat, l |-> D.unk[i].l, r |-> D.unk[i].r, c |-> D.unk[i].c, f |-> D.unk[i].f]]
Project(D) == [lex |-> ProjWords(D.lex), user |-> ProjWords(D.user), unk |-> UnkStored(D),
               nr |-> D.nr, nl |-> D.nl, mat |-> D.mat]

(* what the dictionary says about a fixed list of BMP characters (the same list as PROBE_CHARS
   in the harness): category set, primary category and its invoke / group / length.  Astral
   characters are left out (known finding F19). *)
ProbeChars == <<0, 31, 32, 97, 98, 99, 100, 122, 233, 12288, 12354, 20140, 20141, 26481, 65503, 65520, 65534, 65535>>
CharProj(D) == [i \in 1..Len(ProbeChars) |->
                  LET ch == ProbeChars[i]  ln == Line(D, ch)  b == BaseL(D, ln) IN
                  [ch |-> ch, cats |-> SetToSortSeq(CatSetL(D, ln), LAMBDA x, y : x < y), base |-> b,
                   invoke |-> D.cats[b + 1].invoke, group |-> D.cats[b + 1].group, length |-> D.cats[b + 1].length]]

(* ---- theorems checked by TLC on small scopes ------------------------------------ *)
(* tokens of the mapped dictionary = tokens of the original with ids renamed *)
RenameToks(toks, pl, pr) == [i \in 1..Len(toks) |-> [toks[i] EXCEPT !.l = pl[toks[i].l + 1], !.r = pr[toks[i].r + 1]]]
MapInvariantOn(D, O, ll, rl, s) ==
   DetTokens(MapDict(D, ll, rl), O, s) = RenameToks(DetTokens(D, O, s), PermOfList(ll), PermOfList(rl))
MapCostOK(D, ll, rl) ==
   LET M == MapDict(D, ll, rl)  pl == PermOfList(ll)  pr == PermOfList(rl) IN
   \A r \in 0..(D.nr - 1), l \in 0..(D.nl - 1) : Conn(M, pr[r + 1], pl[l + 1]) = Conn(D, r, l)

(* a user lexicon behaves as the same rows appended to the system lexicon (modulo type/id) *)
AsSystem(D) == [D EXCEPT !.lex = D.lex \o D.user, !.user = <<>>]
NormCand(D, w) == IF w.lt = 1 THEN [w EXCEPT !.lt = 0, !.id = w.id + Len(D.lex)] ELSE w
UserAsSystemOn(D, O, s) ==
   LET T == STab(D, s, FALSE)  D2 == AsSystem(D) IN
   /\ \A q \in 0..(Len(s) - 1) : {NormCand(D, w) : w \in CandsAt(D, O, s, T, q)} = CandsAt(D2, O, s, T, q)
   /\ (Len(s) > 0 => OptCost(D, O, s, T) = OptCost(D2, O, s, T))
=========================================================================
