---------------------------- MODULE VCorpus ----------------------------
(* The corpus text format (C19).  A line is the sequence of its tab-separated parts.
     <<surface, feature>> : a token        <<"EOS">> : end of sentence      anything else : malformed
   Sentences without tokens (or whose surfaces are all empty) are dropped; tokens after the last
   EOS are dropped (as Corpus::from_reader does). *)
EXTENDS VBase

IsTok(ln) == Len(ln) = 2
IsEos(ln) == ln = <<"EOS">>
RECURSIVE ParseFrom(_, _, _, _)
ParseFrom(lines, i, cur, acc) ==
   IF i > Len(lines) THEN [ok |-> TRUE, examples |-> acc]
   ELSE IF IsTok(lines[i]) THEN ParseFrom(lines, i + 1, Append(cur, [s |-> lines[i][1], f |-> lines[i][2]]), acc)
   ELSE IF IsEos(lines[i]) THEN
        (IF \A k \in 1..Len(cur) : cur[k].s = "" THEN ParseFrom(lines, i + 1, <<>>, acc)
         ELSE ParseFrom(lines, i + 1, <<>>, Append(acc, cur)))
   ELSE [ok |-> FALSE, examples |-> <<>>]
ParseCorpus(lines) == ParseFrom(lines, 1, <<>>, <<>>)

WriteExample(ex) == [k \in 1..(Len(ex) + 1) |-> IF k <= Len(ex) THEN <<ex[k].s, ex[k].f>> ELSE <<"EOS">>]
RECURSIVE WriteAll(_, _)
WriteAll(exs, i) == IF i > Len(exs) THEN <<>> ELSE WriteExample(exs[i]) \o WriteAll(exs, i + 1)
(* what `tokenize -O mecab` prints for one sentence *)
MecabLines(toks) == WriteExample(toks)
========================================================================
