---------------------------- MODULE VWorkerOps ----------------------------
(* Pure operators about a worker's observable behaviour, shared by the worker model
   (VWorker), the generators and the trace specifications. *)
EXTENDS VPath, SequencesExt

(* ---- C13: connection-cost evaluations of one sentence --------------------------------
   The scan evaluates, at every processed start (sn, q), the cost between every node ending at
   sn and every candidate at q, and finally between every node ending at the EOS start node
   and EOS.  The result does not depend on tie-breaks or insertion order.
   er[<<b, r>>] = number of nodes ending at boundary b with right id r. *)
RECURSIVE EvScan(_, _, _, _, _, _, _, _)
EvScan(D, O, s, T, sw, er, lc, rc) ==
   LET N == Len(s)
       cntAt(b) == SumTo([r \in 1..D.nr |-> er[<<b, r - 1>>]], 1, D.nr)
       eosAt(b) == [lc |-> [lc EXCEPT ![0] = @ + cntAt(b)],
                    rc |-> [r \in 0..(D.nr - 1) |-> rc[r] + er[<<b, r>>]]]
   IN
   IF sw >= N THEN eosAt(N)
   ELSE IF cntAt(sw) = 0 THEN EvScan(D, O, s, T, sw + 1, er, lc, rc)
   ELSE LET q == NextStart(D, O, s, T, sw) IN
        IF q = N THEN eosAt(sw)
        ELSE LET cs == TLCEval(CandsAt(D, O, s, T, q))
                 np == cntAt(sw)
                 lc2 == TLCEval([i \in 0..(D.nl - 1) |-> lc[i] + np * Cardinality({w \in cs : w.l = i})])
                 rc2 == TLCEval([r \in 0..(D.nr - 1) |-> rc[r] + Cardinality(cs) * er[<<sw, r>>]])
                 er2 == TLCEval([br \in (0..N) \X (0..(D.nr - 1)) |->
                           er[br] + Cardinality({w \in cs : w.e = br[1] /\ w.r = br[2]})])
             IN EvScan(D, O, s, T, q + 1, er2, lc2, rc2)

(* counts contributed by sentence s; the empty sentence contributes nothing *)
EvalCounts(D, O, s) ==
   LET N == Len(s)
       z == [lc |-> [i \in 0..(D.nl - 1) |-> 0], rc |-> [r \in 0..(D.nr - 1) |-> 0]]
   IN IF N = 0 THEN z
      ELSE LET T == STab(D, s, FALSE)
               er0 == TLCEval([br \in (0..N) \X (0..(D.nr - 1)) |-> IF br = <<0, 0>> THEN 1 ELSE 0])
           IN EvScan(D, O, s, T, 0, er0, z.lc, z.rc)

(* order of ids 1..n-1 by non-increasing count, ties by ascending id *)
OrderOK(order, cnt, n) ==
   /\ Len(order) = n - 1
   /\ RangeOf(order) = 1..(n - 1)
   /\ \A i \in 1..(Len(order) - 1) :
         \/ cnt[order[i]] > cnt[order[i + 1]]
         \/ (cnt[order[i]] = cnt[order[i + 1]] /\ order[i] < order[i + 1])

(* ---- white-box lattice snapshot (hook H1) --------------------------------------------
   L : [ends : Seq(Seq(node)), eos : node]; ends[b + 1] = nodes ending at boundary b;
   node : [sn, sw, lt, id, l, r, c, mi, mc]  (mi 0-based; c = stored word cost). *)
NodeMinOK(D, L, n, c) ==
   LET preds == L.ends[n.sn + 1]
       costs == {preds[i].mc + Conn(D, preds[i].r, n.l) : i \in 1..Len(preds)}
       m == SetMin(costs)
   IN /\ Len(preds) > 0
      /\ n.mc = m + c
      /\ n.mi + 1 \in 1..Len(preds)
      /\ preds[n.mi + 1].mc + Conn(D, preds[n.mi + 1].r, n.l) = m

(* walks the snapshot as the scan does; result [cands, mins, at, n] *)
RECURSIVE LatScan(_, _, _, _, _, _, _, _, _)
LatScan(D, O, s, T, L, sw, okc, okm, cnt) ==
   LET N == Len(s) IN
   IF sw >= N THEN [cands |-> okc, mins |-> okm, at |-> N, n |-> cnt]
   ELSE IF L.ends[sw + 1] = <<>> THEN LatScan(D, O, s, T, L, sw + 1, okc, okm, cnt)
   ELSE LET q == NextStart(D, O, s, T, sw) IN
        IF q = N THEN [cands |-> okc, mins |-> okm, at |-> sw, n |-> cnt]
        ELSE LET cs == TLCEval(CandsAt(D, O, s, T, q))
                 ml == SetMax({Len(L.ends[b + 1]) : b \in 0..N})
                 pos == TLCEval({p \in (0..N) \X (1..ml) : p[2] <= Len(L.ends[p[1] + 1]) /\ L.ends[p[1] + 1][p[2]].sw = q})
                 node(p) == L.ends[p[1] + 1][p[2]]
                 part(p) == LET n == node(p) IN
                            [e |-> p[1], lt |-> n.lt, id |-> n.id, l |-> n.l, r |-> n.r, c |-> n.c]
                 c1 == /\ Cardinality(pos) = Cardinality(cs)
                       /\ {part(p) : p \in pos} = cs
                       /\ \A p \in pos : node(p).sn = sw
                 c2 == \A p \in pos : NodeMinOK(D, L, node(p), node(p).c)
             IN LatScan(D, O, s, T, L, q + 1, okc /\ c1, okm /\ c2, cnt + Cardinality(cs))

TotalNodes(L, N) == SumTo([b \in 1..N |-> Len(L.ends[b + 1])], 1, N)

LatticeCheck(D, O, s, T, L) ==
   LET N == Len(s)
       r == LatScan(D, O, s, T, L, 0, TRUE, TRUE, 0)
   IN [ cands |-> r.cands /\ TotalNodes(L, N) = r.n /\ L.eos.sn = r.at /\ Len(L.ends[1]) = 1,
        mins  |-> r.mins /\ NodeMinOK(D, L, [sn |-> L.eos.sn, l |-> 0, mi |-> L.eos.mi, mc |-> L.eos.mc], 0) ]

(* back-pointer walk of the snapshot = the reported tokens *)
RECURSIVE LatWalk(_, _, _)
LatWalk(L, at, mi) == IF at = 0 THEN <<>>
                      ELSE LET n == L.ends[at + 1][mi + 1] IN
                           Append(LatWalk(L, n.sn, n.mi), [b |-> n.sw, e |-> at, lt |-> n.lt, id |-> n.id,
                                                          l |-> n.l, r |-> n.r, tot |-> n.mc])
WalkMatches(L, toks) ==
   LET w == LatWalk(L, L.eos.sn, L.eos.mi) IN
   /\ Len(w) = Len(toks)
   /\ \A i \in 1..Len(w) : /\ w[i].b = toks[i].b /\ w[i].e = toks[i].e /\ w[i].lt = toks[i].lt
                           /\ w[i].id = toks[i].id /\ w[i].l = toks[i].l /\ w[i].r = toks[i].r
                           /\ w[i].tot = toks[i].tot

(* ---- C12: re-spacing relation and the stripped view of a result --------------------- *)
RECURSIVE Squeeze(_, _, _, _)
Squeeze(D, s, i, acc) ==     \* drop space characters, keep one marker (-1) per inner run, none at the ends
   IF i > Len(s) THEN (IF Len(acc) > 0 /\ acc[Len(acc)] = -1 THEN SubSeq(acc, 1, Len(acc) - 1) ELSE acc)
   ELSE IF IsSpaceCh(D, s[i])
        THEN (IF Len(acc) = 0 \/ acc[Len(acc)] = -1 THEN Squeeze(D, s, i + 1, acc)
              ELSE Squeeze(D, s, i + 1, Append(acc, -1)))
        ELSE Squeeze(D, s, i + 1, Append(acc, s[i]))
Respaced(D, s1, s2) == Squeeze(D, s1, 1, <<>>) = Squeeze(D, s2, 1, <<>>)
StripTok(s, t) == [surf |-> Slice(s, t.b, t.e), lt |-> t.lt, id |-> t.id, l |-> t.l, r |-> t.r, c |-> t.c, tot |-> t.tot]
Stripped(s, toks) == [i \in 1..Len(toks) |-> StripTok(s, toks[i])]
(* ---------------- implementation-shaped lattice construction ---------------- *)
(* insertion order inside one iteration: user lexicon, system lexicon, unknown words; ids ascending *)
Rank(w) == (IF w.lt = 1 THEN 0 ELSE IF w.lt = 0 THEN 1 ELSE 2) * 100000 + w.id * 100 + w.e
CandSeq(cs) == SetToSortSeq(cs, LAMBDA a, b : Rank(a) < Rank(b))

(* search_min_node with `<=`: the last index among the cheapest *)
LastMin(D, E, at, l) ==
   LET cs == {<<i, E[at + 1][i].mc + Conn(D, E[at + 1][i].r, l)>> : i \in 1..Len(E[at + 1])}
       m  == SetMin({x[2] : x \in cs})
   IN <<SetMax({x[1] : x \in {x \in cs : x[2] = m}}) - 1, m>>

RECURSIVE InsertAll(_, _, _, _, _, _)
InsertAll(D, E, q, at, ws, i) ==
   IF i > Len(ws) THEN E
   ELSE LET w == ws[i]
            m == LastMin(D, E, at, w.l)
            n == [sn |-> at, sw |-> q, lt |-> w.lt, id |-> w.id, l |-> w.l, r |-> w.r, c |-> w.c,
                  mi |-> m[1], mc |-> m[2] + w.c]
        IN InsertAll(D, TLCEval([E EXCEPT ![w.e + 1] = Append(@, n)]), q, at, ws, i + 1)

BosNode == [sn |-> -1, sw |-> -1, lt |-> 0, id |-> -1, l |-> 65535, r |-> 0, c |-> 0, mi |-> 65535, mc |-> 0]

RECURSIVE DetScan(_, _, _, _, _, _)
DetScan(D, O, s, T, sw, E) ==
   LET N == Len(s) IN
   IF sw >= N THEN [ends |-> E, at |-> N]
   ELSE IF E[sw + 1] = <<>> THEN DetScan(D, O, s, T, sw + 1, E)
   ELSE LET q == NextStart(D, O, s, T, sw) IN
        IF q = N THEN [ends |-> E, at |-> sw]
        ELSE DetScan(D, O, s, T, q + 1, InsertAll(D, E, q, sw, CandSeq(CandsAt(D, O, s, T, q)), 1))

DetBuild(D, O, s) ==
   LET N == Len(s)
       T == STab(D, s, FALSE)
       r == DetScan(D, O, s, T, 0, [b \in 1..(N + 1) |-> IF b = 1 THEN <<BosNode>> ELSE <<>>])
       m == LastMin(D, r.ends, r.at, 0)
   IN [len |-> N, ends |-> r.ends, eos |-> [sn |-> r.at, mi |-> m[1], mc |-> m[2]]]

TokOfNode(n, e) == [b |-> n.sw, e |-> e, lt |-> n.lt, id |-> n.id, l |-> n.l, r |-> n.r, c |-> n.c, tot |-> n.mc]
RECURSIVE TopOf(_, _, _)
TopOf(L, at, mi) == IF at = 0 THEN <<>>
                    ELSE LET n == L.ends[at + 1][mi + 1] IN Append(TopOf(L, n.sn, n.mi), TokOfNode(n, at))
DetTokens(D, O, s) == IF Len(s) = 0 THEN <<>> ELSE LET L == DetBuild(D, O, s) IN TopOf(L, L.eos.sn, L.eos.mi)

===========================================================================
