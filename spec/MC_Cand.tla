---------------------------- MODULE MC_Cand ----------------------------
(* C03, full case analysis of the unknown-word rule: the code-shaped operator UnkEnds equals
   the statement-shaped operator UnkEndsDecl on the complete grid, and every case is printed
   as a witness session (dictionary, options, sentence) to be replayed in the real code
   (one implementation test per case of the rule). *)
EXTENDS VCand, Json
CONSTANTS Emit        \* TRUE: print one witness per case

VARIABLE c
Cases == [invoke : {0, 1}, group : {0, 1}, length : 0..4, mgl : 0..3, run : 1..5, matched : BOOLEAN]
Init == c \in Cases
Next == UNCHANGED c
Spec == Init /\ [][Next]_c

CI(k) == [invoke |-> k.invoke, group |-> k.group, length |-> k.length]
RuleAgrees == UnkEnds(CI(c), c.run, 0, c.run + 1, c.matched, c.mgl) = UnkEndsDecl(CI(c), c.run, 0, c.run + 1, c.matched, c.mgl)
(* sanity of the rule itself *)
RuleSane == LET ends == UnkEnds(CI(c), c.run, 0, c.run + 1, c.matched, c.mgl) IN
            /\ \A e \in ends : 1 <= e /\ e <= c.run
            /\ (~c.matched => ends # {})                    \* some candidate always exists
            /\ (c.matched /\ c.invoke = 0 => ends = {})

(* witness: category A = (invoke, group, length) on 'a'; the sentence is a run of `run` a's
   followed by 'b' (DEFAULT); `matched` puts the word "a" into the lexicon *)
Witness(k) ==
   [ D |-> [ cats |-> << [invoke |-> 0, group |-> 1, length |-> 0], [invoke |-> k.invoke, group |-> k.group, length |-> k.length] >>,
             space |-> -1,
             ranges |-> << [lo |-> 97, hi |-> 97, cs |-> <<1>>] >>,
             lex |-> IF k.matched THEN << [s |-> <<97>>, l |-> 0, r |-> 1, c |-> 3, f |-> "a"], [s |-> <<122>>, l |-> 0, r |-> 0, c |-> 1, f |-> "z"] >>
                     ELSE << [s |-> <<122>>, l |-> 0, r |-> 0, c |-> 1, f |-> "z"] >>,
             user |-> <<>>,
             unk |-> << [cat |-> 1, l |-> 1, r |-> 0, c |-> 5, f |-> "uA1"], [cat |-> 0, l |-> 0, r |-> 1, c |-> 9, f |-> "uD"],
                        [cat |-> 1, l |-> 0, r |-> 1, c |-> 6, f |-> "uA2"] >>,
             nr |-> 2, nl |-> 2, mat |-> <<0, 2, -3, 1>> ],
     O |-> [isp |-> FALSE, mgl |-> k.mgl], nw |-> 1, lattice |-> TRUE,
     ops |-> << [op |-> "reset", w |-> 1, s |-> [i \in 1..(k.run + 1) |-> IF i <= k.run THEN 97 ELSE 98]],
                [op |-> "tok", w |-> 1] >> ]
EmitInv == Emit => PrintT(<<"GEN", ToJson(Witness(c))>>)
========================================================================
