SPECIFICATION Spec
CONSTANTS
  MaxN = 3
  MaxSteps = 1
  ExactSurface = FALSE
  GoldGenerable = FALSE
INVARIANTS WellFormed GoldLabelSound VirtualFresh SeedPreferred NegativeSane GoldNamesOwnRow GoldUnkIsCandidate
CHECK_DEADLOCK FALSE
