SPECIFICATION Spec
CONSTANTS
  Emit = FALSE
INVARIANTS RuleAgrees RuleSane EmitInv
CHECK_DEADLOCK FALSE
