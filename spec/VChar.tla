---------------------------- MODULE VChar ----------------------------
(* Character categories (char.def).
   D.cats   : sequence of [invoke, group, length]; index - 1 = category id; id 0 = DEFAULT
   D.ranges : sequence of [lo, hi, cs] in file order; cs = sequence of category ids,
              the first one is the primary (base) category
   D.space  : category id of SPACE, or -1
   AstralNul (constant-like operator argument) selects the named deviation AstralUsesNul. *)
EXTENDS VBase

RECURSIVE LastCover(_, _, _)
LastCover(D, ch, i) ==
   IF i = 0 THEN 0
   ELSE IF D.ranges[i].lo <= ch /\ ch <= D.ranges[i].hi THEN i ELSE LastCover(D, ch, i - 1)

(* the range line that decides character ch; 0 = none (DEFAULT).  Range lines cannot
   mention characters above U+FFFF, so those are DEFAULT (the property's reading). *)
Line(D, ch) == IF ch > 65535 THEN 0 ELSE LastCover(D, ch, Len(D.ranges))

(* named deviation AstralUsesNul: the pinned code gives characters >= U+10000 the
   information of U+0000 *)
LineDev(D, ch) == IF ch > 65535 THEN LastCover(D, 0, Len(D.ranges)) ELSE LastCover(D, ch, Len(D.ranges))

CatSetL(D, i) == IF i = 0 THEN {0} ELSE RangeOf(D.ranges[i].cs)
BaseL(D, i) == IF i = 0 THEN 0 ELSE D.ranges[i].cs[1]

CatSet(D, ch) == CatSetL(D, Line(D, ch))
Base(D, ch) == BaseL(D, Line(D, ch))
Info(D, ch) == D.cats[Base(D, ch) + 1]

(* per-sentence tables, evaluated once (TLC function constructors are lazy) *)
LineTab(D, s, dev) == TLCEval([i \in 1..Len(s) |-> IF dev THEN LineDev(D, s[i]) ELSE Line(D, s[i])])
CatTab(D, s, lt) == TLCEval([i \in 1..Len(s) |-> CatSetL(D, lt[i])])
BaseTab(D, s, lt) == TLCEval([i \in 1..Len(s) |-> BaseL(D, lt[i])])

(* Groupable run length at 1-based position i: number of characters starting at i such that
   each adjacent pair shares a category (exactly Sentence::compute_groupable) *)
RECURSIVE GrpFrom(_, _, _)
GrpFrom(ct, n, i) == IF i = n THEN 1
                     ELSE IF ct[i] \cap ct[i + 1] # {} THEN 1 + GrpFrom(ct, n, i + 1) ELSE 1
GrpTab(ct, n) == TLCEval([i \in 1..n |-> GrpFrom(ct, n, i)])

(* limits of the packed representation (18 category bits, 8 base bits, 4 length bits) *)
FitsPacking(D) == /\ Len(D.cats) <= 18
                  /\ \A i \in 1..Len(D.cats) : D.cats[i].length <= 15
=======================================================================
