SPECIFICATION Spec
CONSTANTS
  MaxLines = 2
INVARIANT Conversion
CHECK_DEADLOCK FALSE
