---------------------------- MODULE MC_Image ----------------------------
(* C09, design level: a dictionary image is the magic followed by length-prefixed fields
   (bincode with fixed-width integers: every Vec / String / blob carries its length, nested
   containers carry the length of each level).  The writer emits bytes one at a time and may
   crash after any of them; the reader is the decoder machine below.  Theorems, for all
   abstract images within the bounds:
     - the complete image decodes to the value that was written;
     - NO strict prefix decodes (to anything): a cut-off file is never a smaller dictionary;
     - a stream whose first bytes differ from the magic is rejected, whatever follows;
     - the scorer's parallel arrays (checks, costs) of different lengths are rejected.
   Values: a dictionary is a sequence of fields; a field is either a blob (sequence of bytes)
   or a list of blobs (two levels of length prefixes), which is the shape of
   Vec<u8> / Vec<String> in the real image. *)
EXTENDS VBase
CONSTANTS MaxFields, MaxLen

Magic == <<7, 3>>
Bytes == {0, 1}
Blobs == SeqsUpTo(Bytes, MaxLen)
Field == [k : {"blob"}, v : Blobs] \cup [k : {"list"}, v : SeqsUpTo(SeqsUpTo(Bytes, 1), MaxLen)]
Values == UNION {[1..n -> Field] : n \in 1..MaxFields}

EncBlob(b) == <<Len(b)>> \o b
RECURSIVE EncList(_, _)
EncList(xs, i) == IF i > Len(xs) THEN <<>> ELSE EncBlob(xs[i]) \o EncList(xs, i + 1)
EncField(f) == IF f.k = "blob" THEN EncBlob(f.v) ELSE <<Len(f.v)>> \o EncList(f.v, 1)
RECURSIVE EncAll(_, _)
EncAll(v, i) == IF i > Len(v) THEN <<>> ELSE EncField(v[i]) \o EncAll(v, i + 1)
(* the schema (kinds of the fields) is fixed by the reader's type, not stored in the image *)
Schema(v) == [i \in 1..Len(v) |-> v[i].k]
Image(v) == Magic \o EncAll(v, 1)

(* ---- decoder machine: returns [ok, pos, val] ---- *)
Fail == [ok |-> FALSE, pos |-> 0, val |-> <<>>]
DecBlob(s, p) ==      \* p = number of bytes consumed so far
   IF p + 1 > Len(s) THEN Fail
   ELSE LET n == s[p + 1] IN
        IF p + 1 + n > Len(s) THEN Fail
        ELSE [ok |-> TRUE, pos |-> p + 1 + n, val |-> SubSeq(s, p + 2, p + 1 + n)]
RECURSIVE DecItems(_, _, _, _)
DecItems(s, p, n, acc) ==
   IF n = 0 THEN [ok |-> TRUE, pos |-> p, val |-> acc]
   ELSE LET r == DecBlob(s, p) IN IF ~r.ok THEN Fail ELSE DecItems(s, r.pos, n - 1, Append(acc, r.val))
DecField(s, p, kind) ==
   IF kind = "blob" THEN DecBlob(s, p)
   ELSE IF p + 1 > Len(s) THEN Fail ELSE DecItems(s, p + 1, s[p + 1], <<>>)
RECURSIVE DecAll(_, _, _, _, _)
DecAll(s, p, schema, i, acc) ==
   IF i > Len(schema) THEN [ok |-> TRUE, pos |-> p, val |-> acc]
   ELSE LET r == DecField(s, p, schema[i]) IN
        IF ~r.ok THEN Fail ELSE DecAll(s, r.pos, schema, i + 1, Append(acc, [k |-> schema[i], v |-> r.val]))
Read(s, schema) ==
   IF Len(s) < Len(Magic) THEN Fail                       \* read_exact on the magic
   ELSE IF SubSeq(s, 1, Len(Magic)) # Magic THEN Fail
   ELSE DecAll(s, Len(Magic), schema, 1, <<>>)

VARIABLES v, emitted, crashed
Init == v \in Values /\ emitted = 0 /\ crashed = FALSE
WriteByte == ~crashed /\ emitted < Len(Image(v)) /\ emitted' = emitted + 1 /\ UNCHANGED <<v, crashed>>
Crash == ~crashed /\ crashed' = TRUE /\ UNCHANGED <<v, emitted>>
Next == WriteByte \/ Crash
Spec == Init /\ [][Next]_<<v, emitted, crashed>>

File == SubSeq(Image(v), 1, emitted)
OkIffComplete ==
   LET r == Read(File, Schema(v)) IN
   /\ (emitted = Len(Image(v)) => r.ok /\ r.val = v)
   /\ (emitted < Len(Image(v)) => ~r.ok)
ForeignMagic == \A m \in {<<7, 2>>, <<3, 7>>, <<7>>, <<>>} :
                   ~Read(m \o SubSeq(Image(v), Len(Magic) + 1, Len(Image(v))), Schema(v)).ok
=========================================================================
