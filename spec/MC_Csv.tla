---------------------------- MODULE MC_Csv ----------------------------
(* C11: parsing the rendering of any list of rows gives back the rows with a non-empty
   surface, in order, with surface, numbers and raw feature preserved - for every style
   (final newline or not, blank lines before / between / after, forced quoting). *)
EXTENDS VCsv
CONSTANTS MaxRows

Surfaces == { <<97>>, <<97, 98>>, <<97, 44, 98>>, <<97, 34, 98>>, <<32, 97>>, <<26481>>, <<35, 97>>, <<>> }
Ls == {0, 65535}   Cs == {-32768, 7}
Feats == { <<120>>, <<120, 44, 121>>, <<34, 120, 44, 121, 34, 44, 122>>, <<34, 113, 34, 34, 114, 34>>, <<>>, <<120, 44>> }
RowSet == [s : Surfaces, l : Ls, r : {1}, c : Cs, f : Feats]
Styles == [final : BOOLEAN, blankBefore : BOOLEAN, blankBetween : BOOLEAN, blankAfter : BOOLEAN, force : BOOLEAN]

VARIABLES rows, st
(* rows are added one at a time so that TLC's workers share the enumeration *)
Init == rows \in UNION {[1..n -> RowSet] : n \in 0..1} /\ st \in Styles
Next == /\ Len(rows) >= 1 /\ Len(rows) < MaxRows
        /\ \E r \in RowSet : rows' = Append(rows, r)
        /\ UNCHANGED st
Spec == Init /\ [][Next]_<<rows, st>>

RoundTrip == LET p == ParseLex(Render(rows, st)) IN
             /\ p.ok
             /\ Len(p.rows) = Len(NonEmpty(rows))
             /\ \A i \in 1..Len(p.rows) : LET a == p.rows[i]  b == NonEmpty(rows)[i] IN
                   a.s = b.s /\ a.l = b.l /\ a.r = b.r /\ a.c = b.c /\ a.f = b.f
=======================================================================
