---------------------------- MODULE VCost ----------------------------
(* Cost scaling of Model::write_dictionary (C14): cost = trunc(-weight x 32767 / largest
   absolute weight), truncation toward zero as the `as i16` / `as i32` casts do.  Pure integer
   operators without RECURSIVE definitions, shared by TLC (through VModel) and TLAPS
   (VCost_proofs). *)
EXTENDS Integers

Abs(x) == IF x < 0 THEN 0 - x ELSE x
Sgn(x) == IF x < 0 THEN -1 ELSE IF x > 0 THEN 1 ELSE 0
TruncDiv(a, b) == Sgn(a) * (Abs(a) \div b)            \* b > 0; rounds toward zero
CostOfW(mx, w) == IF mx = 0 THEN 0 ELSE TruncDiv((0 - w) * 32767, mx)
=======================================================================
