---------------------------- MODULE MC_Corpus ----------------------------
(* C19: round trip of the corpus format over all line sequences up to MaxLines. *)
EXTENDS VCorpus, Json
CONSTANTS MaxLines, Emit
LinePool == { <<"a", "N">>, <<"b", "V,x">>, <<"", "E">>, <<"EOS", "f">>, <<"EOS">>, <<"a">>, <<"a", "N", "z">>, <<"">> }
VARIABLE lines
Init == lines \in SeqsUpTo(LinePool, MaxLines)
Next == UNCHANGED lines
Spec == Init /\ [][Next]_lines
P == ParseCorpus(lines)
RoundTrip == P.ok => LET w == WriteAll(P.examples, 1)  q == ParseCorpus(w) IN
                      /\ q.ok /\ q.examples = P.examples            \* re-parsing gives the same examples
                      /\ WriteAll(q.examples, 1) = w                \* and writing is stable
NoEmpty == P.ok => \A i \in 1..Len(P.examples) : \E k \in 1..Len(P.examples[i]) : P.examples[i][k].s # ""
MalformedRejected == (\E i \in 1..Len(lines) : ~IsTok(lines[i]) /\ ~IsEos(lines[i])) => ~P.ok
Tokenizer == \A toks \in SeqsUpTo({[s |-> "a", f |-> "N"], [s |-> "EOS", f |-> "x"]}, 2) :
                LET q == ParseCorpus(MecabLines(toks)) IN q.ok /\ q.examples = (IF toks = <<>> THEN <<>> ELSE <<toks>>)
EmitInv == Emit => PrintT(<<"GEN", ToJson([lines |-> lines])>>)
==========================================================================
