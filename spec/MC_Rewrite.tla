---------------------------- MODULE MC_Rewrite ----------------------------
(* C17: the back-tracking walk of the rule trie returns the first registered matching rule,
   for all rule lists in scope and all feature lists; with Emit, every (rule list, feature
   list) pair is printed for the replayer (specification -> implementation). *)
EXTENDS VRewrite, Json
CONSTANTS NRules, NCols, Pinned, Emit, SmallAlpha     \* SmallAlpha: patterns {*, a, b} only (for the wider scopes)

Pats == { [k |-> "any"], [k |-> "lit", v |-> "a"], [k |-> "lit", v |-> "b"] }
        \cup (IF SmallAlpha THEN {} ELSE { [k |-> "alt", v |-> <<"a", "b">>] })
Feats == {"a", "b", "c"}
PatSeqs == SeqsUpTo(Pats, NCols) \ {<<>>}
(* the output identifies the rule and exercises references: $1, $3 (maybe absent), text *)
OutOf(i) == << [k |-> "text", v |-> "r" \o ToString(i)], [k |-> "ref", i |-> 1], [k |-> "ref", i |-> 3] >>
VARIABLE pats
(* rules are added one at a time so that TLC's workers share the enumeration; every prefix
   is itself a rule list and is checked too *)
Init == pats \in [1..1 -> PatSeqs]
Next == Len(pats) < NRules /\ \E p \in PatSeqs : pats' = Append(pats, p)
Spec == Init /\ [][Next]_pats
Rules == [i \in 1..Len(pats) |-> [pat |-> pats[i], out |-> OutOf(i)]]
FeatLists == SeqsUpTo(Feats, NCols + 1)
Refines == LET trie == TLCEval(TrieOf(Rules, Pinned)) IN
           \A fs \in FeatLists : Dfs(trie, 1, 0, fs) = FirstMatch(Rules, fs)
EmitInv == (Emit /\ Len(pats) = NRules) => PrintT(<<"GEN", ToJson([rules |-> Rules])>>)
===========================================================================
