---------------------------- MODULE Trace_Parse ----------------------------
(* Trace validation for C10 and C11.
   build : outcome of a building function on a file set whose class the specification
           assigned (Gen_Parse) - or "DONT_CARE" for randomly corrupted bytes.
           Allowed: VALID -> ok; MUST_ERR -> err; DONT_CARE -> ok or err; never a panic;
           an accepted dictionary tokenizes every probe without panicking and its tokens
           partition the probe (dictionary-independent clauses of C01).
   lex   : a lexicon CSV text and what the built dictionary shows of it (C11): the rows the
           character-level reader VCsv.ParseLex derives from the TEXT must be exactly the
           stored words, in order. *)
EXTENDS VCsv, Json, IOUtils, TLCExt
CONSTANTS Prop, DevStuck

Rec == ndJsonDeserialize(IOEnv.TRACE)
VARIABLE l
Init == l = 1
E == Rec[l]
Is(e) == l <= Len(Rec) /\ E.ev = e /\ l' = l + 1
On(p) == Prop = "ALL" \/ Prop = p
A(p, n, x) == IF ~On(p) THEN TRUE ELSE IF x THEN TRUE ELSE Print(<<"FAILED-CLAUSE", p, n, l>>, FALSE)

ProbeOK(p) ==      \* p : [s, panic, toks : Seq([b, e])], without ignore_space
   /\ ~p.panic
   /\ LET n == Len(p.toks)  N == Len(p.s) IN
      /\ (N = 0 => n = 0)
      /\ (N > 0 => n > 0 /\ p.toks[1].b = 0 /\ p.toks[n].e = N)
      /\ \A i \in 1..n : p.toks[i].b < p.toks[i].e
      /\ \A i \in 1..(n - 1) : p.toks[i].e = p.toks[i + 1].b

(* named deviation Stuck (F12, known finding): a dictionary in which some category has no
   unknown entry is accepted; a probe containing a character whose primary category is such
   a category may panic.  Both facts are read off the real dictionary (nounk, cats). *)
(* ... and, where the lexicon surfaces of the INPUT files are known, only at a position where no
   lexicon entry starts (elsewhere the unknown-word rule is not what keeps the scan going) *)
NoLexAt(e, s, i) == e.lexknown => ~\E k \in 1..Len(e.lexs) : IsPrefixAt(e.lexs[k], s, i - 1)
F12Explains(p, nounk) == DevStuck /\ \E i \in 1..Len(p.cats) : p.cats[i] \in nounk /\ NoLexAt(E, p.s, i)
Build == /\ Is("build")
         /\ LET nounk == RangeOf(E.nounk) IN
            /\ A("C10", "never-panics", E.outcome # "panic")
            /\ A("C10", "valid-input-accepted", E.class = "VALID" => E.outcome = "ok")
            /\ A("C10", "unsafe-input-rejected", E.class = "MUST_ERR" => E.outcome = "err")
            /\ A("C10", "category-without-unknown-entries-rejected", (E.class = "MUST_ERR_F12" /\ ~DevStuck) => E.outcome = "err")
            /\ A("C10", "accepted-dictionary-is-safe",
                 E.outcome = "ok" => \A i \in 1..Len(E.probes) : ProbeOK(E.probes[i]) \/ (E.probes[i].panic /\ F12Explains(E.probes[i], nounk)))

(* C11 *)
Lex == /\ Is("lex")
       /\ LET p == ParseLex(E.text) IN
          /\ A("C11", "well-formed-csv-accepted", (p.ok /\ Len(p.rows) > 0) => E.ok)
          /\ (p.ok /\ E.ok =>
                /\ A("C11", "one-word-per-row-in-order", Len(E.words) = Len(p.rows))
                /\ A("C11", "numbers-and-feature-verbatim",
                     Len(E.words) = Len(p.rows) =>
                     \A i \in 1..Len(p.rows) : /\ E.words[i].l = p.rows[i].l /\ E.words[i].r = p.rows[i].r
                                               /\ E.words[i].c = p.rows[i].c /\ E.words[i].f = p.rows[i].f)
                /\ A("C11", "surface-unquoted-homographs-kept",
                     \A k \in 1..Len(E.probes) :
                        {E.probes[k].ids[j] : j \in 1..Len(E.probes[k].ids)}
                           = {i - 1 : i \in {i \in 1..Len(p.rows) : p.rows[i].s = E.probes[k].s}}))

Next == Build \/ Lex
Spec == Init /\ [][Next]_l
Accepted ==
   LET d == TLCGet("stats").diameter IN
   IF d - 1 = Len(Rec) THEN TRUE
   ELSE Print(<<"REJECTED", d, ToJson(Rec[d])>>, FALSE)
============================================================================
