---------------------------- MODULE MC_Respace ----------------------------
(* C12: with ignore_space the amount of whitespace does not matter.  All pairs of sentences
   (s1, s2) over two letters and two space characters, |s| <= MaxN, that are re-spacings of one
   another, for a family of dictionaries that meets the precondition (space characters
   belong to SPACE alone, no other character does, no surface contains a space). *)
EXTENDS VWorkerOps
CONSTANTS MaxN

Chars == {97, 98, 32, 12288}
MkDict(ia, ga, la, gd, lx, m) ==
   [ cats |-> << [invoke |-> 1, group |-> gd, length |-> 1],
                 [invoke |-> 0, group |-> 1, length |-> 0],
                 [invoke |-> ia, group |-> ga, length |-> la] >>,
     space |-> 1,
     ranges |-> << [lo |-> 32, hi |-> 32, cs |-> <<1>>], [lo |-> 12288, hi |-> 12288, cs |-> <<1>>],
                   [lo |-> 97, hi |-> 97, cs |-> <<2>>] >>,
     lex |-> lx, user |-> <<>>,
     unk |-> << [cat |-> 2, l |-> 1, r |-> 1, c |-> 4, f |-> "uA"], [cat |-> 0, l |-> 0, r |-> 1, c |-> 7, f |-> "uD"],
                [cat |-> 1, l |-> 1, r |-> 0, c |-> 2, f |-> "uS"] >>,
     nr |-> 2, nl |-> 2, mat |-> m ]
Lex1 == << [s |-> <<97>>, l |-> 1, r |-> 0, c |-> -2, f |-> "a"], [s |-> <<97, 98>>, l |-> 0, r |-> 1, c |-> 1, f |-> "ab"] >>
Lex2 == << [s |-> <<98, 97>>, l |-> 1, r |-> 1, c |-> 4, f |-> "ba"], [s |-> <<98>>, l |-> 0, r |-> 0, c |-> 0, f |-> "b"] >>
Dicts == {MkDict(ia, ga, la, gd, lx, m) : ia \in {0, 1}, ga \in {0, 1}, la \in {0, 2}, gd \in {0, 1},
                                           lx \in {Lex1, Lex2}, m \in {<<0, 2, -3, -1>>, <<-2, 3, 3, -2>>}}
Sents == SeqsUpTo(Chars, MaxN)

VARIABLES D, s1, s2, ph
Init == D \in Dicts /\ s1 \in Sents /\ s2 = <<>> /\ ph = 0
Next == /\ ph = 0 /\ ph' = 1
        /\ s2' \in {x \in Sents : Respaced(D, s1, x)}
        /\ UNCHANGED <<D, s1>>
Spec == Init /\ [][Next]_<<D, s1, s2, ph>>

O == [isp |-> TRUE, mgl |-> 0]
Pre == SpaceIsolated(D, Chars)
SameTokens == Stripped(s1, DetTokens(D, O, s1)) = Stripped(s2, DetTokens(D, O, s2))
SameOptimum == Len(s1) > 0 /\ Len(s2) > 0 => OptCost(D, O, s1, STab(D, s1, FALSE)) = OptCost(D, O, s2, STab(D, s2, FALSE))
SpacesOnly == (\A i \in 1..Len(s1) : IsSpaceCh(D, s1[i])) => DetTokens(D, O, s1) = <<>>
Inv == ph = 1 => Pre /\ SameTokens /\ SameOptimum /\ SpacesOnly
===========================================================================
