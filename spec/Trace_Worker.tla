---------------------------- MODULE Trace_Worker ----------------------------
(* Trace validation of recorded worker sessions (implementation -> specification).
   One ndjson line per public call of vibrato; every line is consumed by exactly one action
   that (a) binds the logged observation, (b) checks it against the declarative layer of
   the specification, (c) updates the abstract worker state.
   Prop selects which step predicates are asserted, so that a rejection is attributed to
   one property:  C01 C02 C03 C04 C12 C13, or ALL.
   Deviations (named in DESIGN 3.4) are constants, FALSE in every registered check. *)
EXTENDS VSystem, Json, IOUtils, TLCExt
CONSTANTS Prop, DevAstralNul, DevStuck

Rec == ndJsonDeserialize(IOEnv.TRACE)

VARIABLES l,        \* next line
          dict, opts,
          ws,       \* worker -> [sent, tk, top]
          cnt,      \* worker -> [on, lc, rc]
          memo      \* set of <<sentence, tokens>> seen in this session (C04)
vars == <<l, dict, opts, ws, cnt, memo>>

On(p) == Prop = "ALL" \/ Prop = p
(* clauses about tokenization results are also clauses of C08 while a user lexicon is loaded
   (candidates and optimum as for the extended system lexicon) and of C06 once ids have been
   remapped (same tokens, costs between mapped ids), and of C05 once the dictionary in use
   has been written and read back (the reloaded dictionary behaves identically) *)
OnTok(p) == \/ On(p)
            \/ (Prop = "C08" /\ Len(dict.user) > 0)
            \/ (Prop \in {"C06", "C13"} /\ (dict.pl # IdPerm(dict.nl) \/ dict.pr # IdPerm(dict.nr)))   \* C13: "... and the mapped dictionary tokenizes identically"
            \/ (Prop = "C05" /\ "reloaded" \in DOMAIN dict)
AT(p, n, x) == IF ~OnTok(p) THEN TRUE ELSE IF x THEN TRUE ELSE Print(<<"FAILED-CLAUSE", Prop, n, l>>, FALSE)
(* an asserted clause; a failing one is named on stdout (single path, so printed once) *)
A(p, n, x) == IF ~On(p) THEN TRUE ELSE IF x THEN TRUE ELSE Print(<<"FAILED-CLAUSE", p, n, l>>, FALSE)

MaxW == 64
W0 == [sent |-> <<>>, tk |-> FALSE, top |-> <<>>]
C0 == [on |-> FALSE, lc |-> <<>>, rc |-> <<>>]

Init == /\ l = 1 /\ dict = <<>> /\ opts = <<>>
        /\ ws = [w \in 1..MaxW |-> W0] /\ cnt = [w \in 1..MaxW |-> C0] /\ memo = {}

E == Rec[l]
Is(e) == l <= Len(Rec) /\ E.ev = e /\ l' = l + 1

(* the dictionary event carries either a dense matrix or a bigram model (raw / dual
   connectors); in the latter case the matrix is materialised from the defining sum *)
Densify(d) == IF "bg" \in DOMAIN d
              THEN [x \in (DOMAIN d \ {"bg"}) \cup {"nr", "nl", "mat"} |->
                      IF x = "nr" THEN Len(d.bg.R) + 1 ELSE IF x = "nl" THEN Len(d.bg.L) + 1
                      ELSE IF x = "mat" THEN MatOf(d.bg) ELSE d[x]]
              ELSE d

Session == /\ Is("session")
           /\ dict' = TLCEval(WithIdentity(Densify(E.D))) /\ opts' = E.O
           /\ ws' = [w \in 1..MaxW |-> W0] /\ cnt' = [w \in 1..MaxW |-> C0] /\ memo' = {}

(* the builder refused the generated dictionary: only the ones that do not fit the packed character
   information (more than 18 categories, a length above 15) are generated invalid *)
BuildErr == /\ Is("build_err")
            /\ A("C10", "rejected-dictionary-is-really-invalid", ~FitsPacking(E.D))
            /\ UNCHANGED <<dict, opts, ws, cnt, memo>>

(* worker w is dropped and a new one is taken from the same tokenizer: it starts empty (no sentence,
   no result, no counter), whatever the dropped workers held *)
Renew == /\ Is("renew")
         /\ A("C04", "new-worker-starts-empty", E.n = 0)
         /\ ws' = [ws EXCEPT ![E.w] = W0] /\ cnt' = [cnt EXCEPT ![E.w] = C0]
         /\ UNCHANGED <<dict, opts, memo>>

Reset == /\ Is("reset")
         /\ A("C04", "reset-clears-result", E.n = 0)                         \* reset_sentence clears the result
         /\ ws' = [ws EXCEPT ![E.w] = [sent |-> E.s, tk |-> FALSE, top |-> <<>>]]
         /\ UNCHANGED <<dict, opts, cnt, memo>>

Core(t) == [b |-> t.b, e |-> t.e, lt |-> t.lt, id |-> t.id, l |-> t.l, r |-> t.r, c |-> t.c, tot |-> t.tot]
CoreSeq(toks) == [i \in 1..Len(toks) |-> Core(toks[i])]
Full(t) == [b |-> t.b, e |-> t.e, bb |-> t.bb, be |-> t.be, surf |-> t.surf, f |-> t.f,
            lt |-> t.lt, id |-> t.id, l |-> t.l, r |-> t.r, c |-> t.c, tot |-> t.tot]
FullSeq(toks) == [i \in 1..Len(toks) |-> Full(toks[i])]

IdsSane(toks) == \A i \in 1..Len(toks) : 0 <= toks[i].l /\ toks[i].l < dict.nl /\ 0 <= toks[i].r /\ toks[i].r < dict.nr
RangesSane(s, toks) == /\ \A i \in 1..Len(toks) : 0 <= toks[i].b /\ toks[i].b < toks[i].e /\ toks[i].e <= Len(s)
                       /\ IdsSane(toks)
                       /\ \A i \in 1..(Len(toks) - 1) : toks[i].e <= toks[i + 1].b

Tok == /\ Is("tok")
       /\ LET s == ws[E.w].sent
              T == STab(dict, s, DevAstralNul)
              toks == CoreSeq(E.toks)
          IN
          /\ AT("C01", "partition+fields", /\ PartitionOK(dict, opts, s, T, toks)
                      /\ \A i \in 1..Len(E.toks) : TokenFieldsOK(dict, s, E.toks[i]))
          (* the remaining clauses index the sentence by the reported positions: they are evaluated
             only for reports whose ranges lie inside the sentence in ascending order (anything
             else is already a violation of C01's clause above) *)
          (* the cost clauses need nothing but connection ids inside the connector *)
          /\ (Len(s) > 0 /\ IdsSane(toks) =>
                AT("C02", "prefix-cost+optimal", /\ PrefixCostOK(dict, toks)
                            /\ ChainTotal(dict, toks) = OptCost(dict, opts, s, T)))
          /\ (Len(s) > 0 /\ RangesSane(s, toks) =>
                /\ AT("C03", "tokens-are-candidates", ChainOK(dict, opts, s, T, toks, 1, 0, 0))
                /\ ("lat" \in DOMAIN E =>
                      LET chk == LatticeCheck(dict, opts, s, T, E.lat) IN
                      /\ AT("C03", "lattice-candidate-bags", chk.cands)
                      /\ AT("C02", "lattice-node-minima", chk.mins)
                      /\ A("C04", "backtrace-is-result", WalkMatches(E.lat, toks))))
          (* same result whatever preceded: EVERYTHING reported for the sentence, byte ranges, surfaces
             and features included *)
          /\ A("C04", "same-result-as-before", \A m \in memo : m[1] = s => m[2] = FullSeq(E.toks))
          /\ ws' = [ws EXCEPT ![E.w] = [sent |-> s, tk |-> TRUE, top |-> toks]]
          /\ memo' = memo \cup {<<s, FullSeq(E.toks)>>}
       /\ UNCHANGED <<dict, opts, cnt>>

Read == /\ Is("read")
        /\ A("C04", "read-returns-result", CoreSeq(E.toks) = ws[E.w].top)
        /\ UNCHANGED <<dict, opts, ws, cnt, memo>>

CInit == /\ Is("cinit")
         /\ cnt' = [cnt EXCEPT ![E.w] = [on |-> TRUE, lc |-> [i \in 0..(dict.nl - 1) |-> 0],
                                                     rc |-> [i \in 0..(dict.nr - 1) |-> 0]]]
         /\ UNCHANGED <<dict, opts, ws, memo>>

(* documented use: after a tokenize of the current sentence (ws[w].tk); otherwise the
   statement of C13 says nothing and the abstract counter is re-synchronised *)
CUpd == /\ Is("cupd")
        /\ A("C13", "one-count-per-connection-id", Len(E.lc) = dict.nl /\ Len(E.rc) = dict.nr)
        /\ IF Len(E.lc) # dict.nl \/ Len(E.rc) # dict.nr THEN UNCHANGED cnt ELSE
           LET c == cnt[E.w]
               got == [on |-> TRUE, lc |-> [i \in 0..(dict.nl - 1) |-> E.lc[i + 1]],
                                    rc |-> [i \in 0..(dict.nr - 1) |-> E.rc[i + 1]]]
           IN IF c.on /\ ws[E.w].tk
              THEN LET e == EvalCounts(dict, opts, ws[E.w].sent)
                       want == [on |-> TRUE, lc |-> [i \in 0..(dict.nl - 1) |-> c.lc[i] + e.lc[i]],
                                             rc |-> [i \in 0..(dict.nr - 1) |-> c.rc[i] + e.rc[i]]]
                   IN /\ A("C13", "counts-exact", got = want)
                      /\ cnt' = [cnt EXCEPT ![E.w] = IF On("C13") THEN want ELSE got]
              ELSE cnt' = [cnt EXCEPT ![E.w] = got]
        /\ UNCHANGED <<dict, opts, ws, memo>>

Probs == /\ Is("probs")
         /\ A("C13", "order", /\ OrderOK(E.lo, cnt[E.w].lc, dict.nl)
                     /\ OrderOK(E.ro, cnt[E.w].rc, dict.nr))
         /\ UNCHANGED <<dict, opts, ws, cnt, memo>>

(* C12: two recorded results of re-spaced sentences (each was validated by its own tok line) *)
Respace == /\ Is("respace")
           /\ A("C12", "respaced-equal", (/\ opts.isp
                        /\ SpaceIsolated(dict, RangeOf(E.s1) \cup RangeOf(E.s2))
                        /\ Respaced(dict, E.s1, E.s2))
                       => Stripped(E.s1, CoreSeq(E.t1)) = Stripped(E.s2, CoreSeq(E.t2)))
           /\ UNCHANGED <<dict, opts, ws, cnt, memo>>

(* result of asking for ignore_space: accepted iff SPACE is defined *)
OptErr == /\ Is("isp_result")
          /\ A("C12", "ignore-space-accepted-iff-SPACE", E.ok = (E.space >= 0))
          /\ UNCHANGED <<dict, opts, ws, cnt, memo>>

(* named deviation Stuck (F12): tokenize panics exactly when the scan reaches a position
   without candidates; consumed only when the deviation is switched on (classification) *)
PanicStuck == /\ Is("panic") /\ DevStuck
              /\ E.op.op = "tok"
              /\ LET s == ws[E.op.w].sent IN
                 Len(s) > 0 /\ ScanStuck(dict, opts, s, STab(dict, s, DevAstralNul))
              /\ UNCHANGED <<dict, opts, ws, cnt, memo>>

(* a panic ends its session.  "never panics" is a clause of C01 (tokenization), C13 (the
   counter calls) and C10 (building); under any other Prop the event is consumed without
   assertion so that the rejection is attributed to the property that owns the clause *)
PanicElsewhere ==
   /\ Is("panic")
   /\ \/ (E.op.op \in {"tok", "reset", "read"} /\ ~On("C01"))
      \/ (E.op.op = "respace" /\ ~On("C01") /\ ~On("C12"))      \* C12's own probes: both sentences must be tokenized
      \/ (E.op.op \in {"cinit", "cupd", "probs"} /\ ~On("C13"))
      \/ (E.op.op = "build" /\ ~On("C10"))
   /\ UNCHANGED <<dict, opts, ws, cnt, memo>>

(* sentences with a run of more than 65535 category-sharing characters: too long to be re-derived
   here; the harness evaluates the partition clause (order, contiguity / gaps over spaces only,
   surfaces and byte ranges = slices of the input) and this action asserts its verdict *)
BigSent == /\ Is("bigsent")
           /\ A("C01", "very-long-run-is-tokenized-and-partitioned", ~E.panic /\ E.partition_ok /\ E.ntok > 0)
           /\ UNCHANGED <<dict, opts, ws, cnt, memo>>

(* a worker that has served more than 65536 sentences: the history is too long to be replayed here; the
   harness compares every result with a fresh worker's (C04: the result is a function of the sentence,
   not of what the worker did before) and this action asserts the verdict *)
LongLife == /\ Is("longlife")
            /\ A("C04", "long-lived-worker-agrees-with-a-fresh-one", ~E.panic /\ E.mismatches = 0)
            /\ UNCHANGED <<dict, opts, ws, cnt, memo>>

Summary == Is("stress_summary") /\ UNCHANGED <<dict, opts, ws, cnt, memo>>

Next == Summary \/ Renew \/ BuildErr \/ BigSent \/ LongLife \/ PanicStuck \/ PanicElsewhere \/ Session \/ Reset \/ Tok \/ Read \/ CInit \/ CUpd \/ Probs \/ Respace \/ OptErr
Spec == Init /\ [][Next]_vars

Accepted ==
   LET d == TLCGet("stats").diameter IN
   IF d - 1 = Len(Rec) THEN TRUE
   ELSE Print(<<"REJECTED", d, ToJson(Rec[d])>>, FALSE)
=============================================================================
