SPECIFICATION Spec
CONSTANTS
  Double = FALSE
INVARIANTS Emit BaseValid
CHECK_DEADLOCK FALSE
