---------------------------- MODULE Gen_System ----------------------------
(* All histories of tool invocations up to Depth over a small fixed set of definition files,
   training-line sets and tokenizer options; each printed for the command-line replayer.
   The abstract dictionary is threaded through the history so that the model itself can be
   checked: after any history the compiled dictionary tokenizes like the original one up to
   the renaming of ids (C06 / C13 at tool level). *)
EXTENDS VSystem, Json
CONSTANTS Depth

Defs == WithIdentity(
        [ cats |-> << [invoke |-> 1, group |-> 1, length |-> 1], [invoke |-> 0, group |-> 1, length |-> 0], [invoke |-> 0, group |-> 0, length |-> 2] >>,
          space |-> 1,
          ranges |-> << [lo |-> 32, hi |-> 32, cs |-> <<1>>], [lo |-> 97, hi |-> 97, cs |-> <<2>>] >>,
          lex |-> << [s |-> <<97>>, l |-> 1, r |-> 2, c |-> 2, f |-> "a"], [s |-> <<97, 98>>, l |-> 2, r |-> 1, c |-> 1, f |-> "ab"],
                     [s |-> <<98>>, l |-> 0, r |-> 0, c |-> 3, f |-> "b"] >>,
          user |-> <<>>,
          unk |-> << [cat |-> 2, l |-> 2, r |-> 2, c |-> 6, f |-> "uA"], [cat |-> 0, l |-> 1, r |-> 0, c |-> 5, f |-> "uD"], [cat |-> 1, l |-> 0, r |-> 1, c |-> 1, f |-> "uS"] >>,
          nr |-> 3, nl |-> 3, mat |-> <<0, 1, -2, 3, -4, 5, -6, 7, 2>> ])
UserRows == << [s |-> <<98, 97>>, l |-> 1, r |-> 2, c |-> -3, f |-> "u-ba"] >>
LineSets == << << <<97, 98>>, <<>>, <<98, 97, 32, 97>> >>, << <<98>>, <<98>>, <<97>> >> >>
Probes == << <<97, 98, 97>>, <<98, 32, 32, 97, 98>>, <<>> >>

VARIABLES fs, dic, mp, hist
Init == fs = {} /\ dic = Defs /\ mp = <<>> /\ hist = <<>>
Do(op) ==
   /\ hist' = Append(hist, op)
   /\ fs' = After(fs, op.tool)
   /\ IF ~Succeeds(fs, op.tool) THEN UNCHANGED <<dic, mp>>
      ELSE CASE op.tool = "compile" -> dic' = Defs /\ UNCHANGED mp
             [] op.tool = "reorder" -> LET c == ReorderCounts(dic, LineSets[op.lines]) IN
                                       mp' = <<OrderOf(c.lc, dic.nl), OrderOf(c.rc, dic.nr)>> /\ UNCHANGED dic
             [] op.tool = "map" -> dic' = MapDict(dic, mp[1], mp[2]) /\ UNCHANGED mp
             [] OTHER -> UNCHANGED <<dic, mp>>
Ops == {[tool |-> "compile"], [tool |-> "map"]}
       \cup {[tool |-> "reorder", lines |-> k] : k \in 1..Len(LineSets)}
       \cup {[tool |-> "tokenize", isp |-> i, user |-> u] : i \in BOOLEAN, u \in BOOLEAN}
Next == Len(hist) < Depth /\ \E op \in Ops : Do(op)
Spec == Init /\ [][Next]_<<fs, dic, mp, hist>>

(* whatever the tools did, the dictionary on disk tokenizes like the original up to renaming *)
Equivalent == "dic" \in fs =>
   \A k \in 1..Len(Probes) : \A o \in {[isp |-> FALSE, mgl |-> 0], [isp |-> TRUE, mgl |-> 0]} :
      DetTokens(dic, o, Probes[k]) = RenameToks(DetTokens(Defs, o, Probes[k]), dic.pl, dic.pr)
MappingValid == mp # <<>> => MapValid(dic, mp[1], mp[2])
Emit == Len(hist) = Depth => PrintT(<<"GEN", ToJson([defs |-> Defs, user |-> UserRows, linesets |-> LineSets, probes |-> Probes, hist |-> hist])>>)
===========================================================================
