---------------------------- MODULE VConn ----------------------------
(* Connection costs.
   Dense form: D.nr, D.nl, D.mat (flat, cell (r,l) at l*nr + r + 1).
   Bigram model M (C07): [ R : Seq(Seq(STRING)), L : Seq(Seq(STRING)),        \* feature rows of ids 1..
                           cost : Seq([rf, lf, c]) ]                           \* bigram.cost lines in order
   Feature "" is the BOS/EOS feature; id 0 has "" at every position. *)
EXTENDS VBase

Conn(D, r, l) == D.mat[l * D.nr + r + 1]

(* ---- defining sum of property C07 ---- *)
NumTemplates(M) == LET lens == {Len(M.R[i]) : i \in 1..Len(M.R)} \cup {Len(M.L[i]) : i \in 1..Len(M.L)} \cup {0}
                   IN SetMax(lens)
(* cost listed for the feature pair; duplicates: the last line wins; unlisted = 0 *)
PairCost(M, rf, lf) ==
   LET idx == {i \in 1..Len(M.cost) : M.cost[i].rf = rf /\ M.cost[i].lf = lf}
   IN IF idx = {} THEN 0 ELSE M.cost[SetMax(idx)].c
Absent == "\\absent"      \* a position beyond the end of a ragged row: contributes nothing
FeatAt(rows, id, k) == IF id = 0 THEN "" ELSE IF k <= Len(rows[id]) THEN rows[id][k] ELSE Absent
(* a feature string takes part only if some cost line mentions it on that side *)
KnownR(M) == {M.cost[i].rf : i \in 1..Len(M.cost)} \cup {""}
KnownL(M) == {M.cost[i].lf : i \in 1..Len(M.cost)} \cup {""}
DefCost(M, r, l) ==
   LET K == NumTemplates(M)
       term(k) == LET rf == FeatAt(M.R, r, k)  lf == FeatAt(M.L, l, k)
                  IN IF rf = Absent \/ lf = Absent \/ rf = "*" \/ lf = "*" THEN 0 ELSE PairCost(M, rf, lf)
   IN SumTo([k \in 1..K |-> term(k)], 1, K)

(* dense matrix materialised from the defining sum *)
MatOf(M) == LET nr == Len(M.R) + 1  nl == Len(M.L) + 1
            IN TLCEval([x \in 1..(nr * nl) |-> DefCost(M, (x - 1) % nr, (x - 1) \div nr)])

(* ---- id remapping (C06).  pl, pr : old id -> new id, sequences indexed by old id + 1,
   with pl[1] = pr[1] = 0 ---- *)
IsPerm(p, n) == /\ Len(p) = n /\ p[1] = 0
                /\ \A i \in 1..n : p[i] \in 0..(n - 1)
                /\ \A i, j \in 1..n : p[i] = p[j] => i = j
InvAt(p, new) == (CHOOSE i \in 1..Len(p) : p[i] = new) - 1
MapMat(D, pl, pr) ==
   TLCEval([x \in 1..(D.nr * D.nl) |->
      LET r == (x - 1) % D.nr  l == (x - 1) \div D.nr
      IN D.mat[InvAt(pl, l) * D.nr + InvAt(pr, r) + 1]])
(* mapping list as given to map_connection_ids_from_iter: item i (1-origin) = OLD id placed at NEW id i *)
PermOfList(lst) == [i \in 1..(Len(lst) + 1) |->
                      IF i = 1 THEN 0 ELSE CHOOSE new \in 1..Len(lst) : lst[new] = i - 1]
ValidList(lst, n) == /\ Len(lst) = n - 1
                     /\ \A i \in 1..Len(lst) : lst[i] \in 1..(n - 1)
                     /\ \A i, j \in 1..Len(lst) : lst[i] = lst[j] => i = j
Compose(p2, p1) == [i \in 1..Len(p1) |-> p2[p1[i] + 1]]       \* apply p1 first
=======================================================================
