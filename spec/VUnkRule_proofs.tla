---------------------------- MODULE VUnkRule_proofs ----------------------------
(* Unbounded proofs (TLAPS) about the unknown-word rule of VUnkRule (used by VCand).
   RuleAgrees: the code-shaped unknown-word rule (UnkEnds, after UnkHandler::gen_unk_words)
   equals the statement-shaped rule (UnkEndsDecl, after the text of property C03) for ALL
   category parameters, run lengths, positions and grouping limits - MC_Cand checks the same
   equality on the grid invoke x group x length 0..4 x mgl 0..3 x run 1..5 only.
   RuleSane: every unknown end lies inside the run; something is always offered when the
   lexicon offers nothing; nothing is offered for invoke = 0 after a lexicon match. *)
EXTENDS VUnkRule, TLAPS

CatInfo == [invoke : {0, 1}, group : {0, 1}, length : Nat]

THEOREM RuleAgrees ==
   ASSUME NEW ci \in CatInfo, NEW g \in Nat \ {0}, NEW p \in Nat, NEW n \in Nat,
          NEW matched \in BOOLEAN, NEW mgl \in Nat
   PROVE  UnkEnds(ci, g, p, n, matched, mgl) = UnkEndsDecl(ci, g, p, n, matched, mgl)
<1>1. ci.invoke \in {0, 1} /\ ci.group \in {0, 1} /\ ci.length \in Nat
  BY DEF CatInfo
<1>2. {i \in 1..Min2(ci.length, g) : ~(ci.group = 1 /\ i = g)} = {k \in 1..g : k <= ci.length /\ ~(ci.group = 1 /\ k = g)}
  BY <1>1 DEF Min2
<1>3. (mgl = 0 \/ g - 1 <= mgl) <=> ~(mgl # 0 /\ g > mgl + 1)
  OBVIOUS
<1> QED
  BY <1>1, <1>2, <1>3 DEF UnkEnds, UnkEndsDecl

THEOREM RuleSane ==
   ASSUME NEW ci \in CatInfo, NEW g \in Nat \ {0}, NEW p \in Nat, NEW n \in Nat,
          NEW matched \in BOOLEAN, NEW mgl \in Nat
   PROVE  /\ \A e \in UnkEnds(ci, g, p, n, matched, mgl) : p + 1 <= e /\ e <= p + g
          /\ (~matched => UnkEnds(ci, g, p, n, matched, mgl) # {})
          /\ (matched /\ ci.invoke = 0 => UnkEnds(ci, g, p, n, matched, mgl) = {})
<1>1. ci.invoke \in {0, 1} /\ ci.group \in {0, 1} /\ ci.length \in Nat
  BY DEF CatInfo
<1>2. \A i \in 1..Min2(ci.length, g) : 1 <= i /\ i <= g
  BY <1>1 DEF Min2
<1> QED
  BY <1>1, <1>2 DEF UnkEnds, Min2
=============================================================================
