---------------------------- MODULE Trace_Dict ----------------------------
(* Trace validation of dictionary lifecycle sessions (C05 C06 C08, and the projection part
   of C11).  Extends the worker trace specification: tokenization events are validated
   against the abstract dictionary that THIS specification evolves through the operations
   of VDictOps - the dictionary is logged once, at `session`, never again. *)
EXTENDS Trace_Worker

VARIABLES lastop,        \* which operation the next projection belongs to (attribution)
          lastp          \* the two id orders most recently reported by compute_connid_probs (reorder -> map pipeline)
dvars == <<vars, lastop, lastp>>

DInit == Init /\ lastop = "build" /\ lastp = <<>>

OwnerOf(op) == IF op = "user" THEN "C08" ELSE IF op = "map" THEN "C06" ELSE IF op = "wr" THEN "C05" ELSE "C11"

DSession == Session /\ lastop' = "build" /\ lastp' = <<>>
DProbs == Probs /\ lastp' = <<E.lo, E.ro>> /\ UNCHANGED lastop

(* the dictionary shows exactly the abstract value *)
Proj == /\ Is("proj")
        /\ A(OwnerOf(lastop), "projection-after-" \o lastop, E.p = Project(dict))
        /\ ("chars" \in DOMAIN E =>
              A(OwnerOf(lastop), "character-table-after-" \o lastop, [i \in 1..Len(E.chars) |-> E.chars[i]] = CharProj(dict)))
        /\ UNCHANGED <<dict, opts, ws, cnt, memo, lastop, lastp>>

User == /\ Is("user")
        /\ IF E.clear
           THEN /\ A("C08", "clear-accepted", E.ok)
                /\ dict' = ClearUser(dict)
           ELSE IF E.rows = <<>>
           (* a CSV without rows: the pinned code reports an error (nothing to build a trie from); either
              way the result is "no user lexicon" or "unchanged", never "the previous one kept on success" *)
           THEN dict' = IF E.ok THEN SetUser(dict, <<>>) ELSE dict
           ELSE LET valid == RowsValid(dict, E.rows) IN
                /\ A("C08", "user-lexicon-accepted-iff-valid", E.ok = valid)
                /\ A("C10", "invalid-user-lexicon-rejected", ~valid => ~E.ok)
                /\ dict' = IF E.ok THEN SetUser(dict, E.rows) ELSE dict
        /\ lastop' = "user" /\ memo' = {}
        /\ UNCHANGED <<opts, ws, cnt, lastp>>

Map == /\ Is("map")
       /\ LET valid == MapValid(dict, E.ll, E.rl) IN
          /\ A("C06", "mapping-accepted-iff-valid", E.ok = valid)
          /\ A("C10", "malformed-mapping-rejected", ~valid => ~E.ok)
          (* C13: what the reorder tool writes is always accepted by the map tool *)
          /\ A("C13", "reorder-output-accepted-by-map", (lastp = <<E.ll, E.rl>>) => E.ok)
          /\ dict' = IF E.ok /\ valid THEN TLCEval(MapDict(dict, E.ll, E.rl)) ELSE dict
       /\ lastop' = "map" /\ memo' = {}
       /\ UNCHANGED <<opts, ws, cnt, lastp>>

(* write; read; write again: the abstract value is unchanged (checked by the projection that
   follows), write reports what it emitted, and the bytes are reproduced *)
WR == /\ Is("wr")
      /\ A("C05", "read-accepts-own-image", E.ok)
      /\ A("C05", "write-reports-emitted-length", E.ret = E.emitted)
      /\ A("C05", "rewrite-reproduces-bytes", E.h1 = E.h2 /\ E.len2 = E.emitted)
      (* a writer may take fewer bytes than offered (std::io::Write): the image and the count are the same *)
      /\ ("short_ok" \in DOMAIN E => A("C05", "short-writes-are-completed", E.short_ok))
      (* from here on the session runs on a RELOADED dictionary: every tokenization clause is
         also a clause of C05 ("behaves identically to D"), see OnTok *)
      /\ dict' = [x \in DOMAIN dict \cup {"reloaded"} |-> IF x = "reloaded" THEN TRUE ELSE dict[x]]
      /\ lastop' = "wr"
      /\ UNCHANGED <<opts, ws, cnt, memo, lastp>>

(* relational clause of C06: same tokens, ids renamed by the permutation *)
(* (ids outside the lists cannot be renamed: such a report is unequal by definition) *)
RenamedEq(before, after, ll, rl) ==
   /\ \A i \in 1..Len(before) : before[i].l >= 0 /\ before[i].l <= Len(ll) /\ before[i].r >= 0 /\ before[i].r <= Len(rl)
   /\ CoreSeq(after) = RenameToks(CoreSeq(before), PermOfList(ll), PermOfList(rl))
MapRel == /\ Is("maprel")
          /\ A("C06", "tokens-equal-up-to-renaming", RenamedEq(E.before, E.after, E.ll, E.rl))
          /\ A("C13", "mapped-dictionary-tokenizes-identically", RenamedEq(E.before, E.after, E.ll, E.rl))
          /\ A("C06", "surfaces-and-features-equal",
               /\ Len(E.after) = Len(E.before)
               /\ \A i \in 1..Len(E.after) : E.after[i].surf = E.before[i].surf /\ E.after[i].f = E.before[i].f)
          /\ UNCHANGED <<dict, opts, ws, cnt, memo, lastop, lastp>>


(* ---------------- the command-line tools as a black box ----------------
   `tokenize -O detail` prints surface, feature, lexicon type, ids and costs but no ranges and
   no word ids; the ranges are DERIVED by the chain rule (each token starts where the scan
   continues after the previous one), the word id is any candidate that fits. *)
CliTok == /\ Is("clitok")
          /\ LET s == E.s  T == STab(dict, s, DevAstralNul)  d == CliDerive(dict, opts, s, T, E.toks, 1, 0) IN
             /\ AT("C01", "cli-tokens-are-candidates-in-chain", d.ok)
             /\ AT("C03", "cli-tokens-are-candidates", d.ok)
             /\ (d.ok => /\ AT("C01", "cli-partition", PartitionOK(dict, opts, s, T, d.core))
                          /\ (Len(s) > 0 => AT("C02", "cli-prefix-cost+optimal",
                                                /\ ChainOK(dict, opts, s, T, d.core, 1, 0, 0) /\ PrefixCostOK(dict, d.core)
                                                /\ ChainTotal(dict, d.core) = OptCost(dict, opts, s, T))))
          /\ UNCHANGED <<dict, opts, ws, cnt, memo, lastop, lastp>>

(* `tokenize -O wakati`: one line per sentence, the surfaces of the tokens (as -O detail reported
   them for the same sentence) separated by single blanks *)
RECURSIVE JoinSp(_, _)
JoinSp(surfs, i) == IF i > Len(surfs) THEN <<>>
                    ELSE IF i = 1 THEN surfs[1] \o JoinSp(surfs, 2)
                    ELSE <<32>> \o surfs[i] \o JoinSp(surfs, i + 1)
CliWakati == /\ Is("cliwakati")
             /\ AT("C01", "cli-wakati-line-is-the-surfaces-separated-by-blanks",
                   /\ E.nlines = E.want_lines
                   /\ [k \in 1..Len(E.line) |-> E.line[k]] = JoinSp(E.surfs, 1))
             /\ UNCHANGED <<dict, opts, ws, cnt, memo, lastop, lastp>>

(* `reorder` tokenizes the training lines with a plain tokenizer (no ignore_space, no grouping limit) *)
RECURSIVE SumCounts(_, _, _, _)
SumCounts(D, lines, i, acc) ==
   IF i > Len(lines) THEN acc
   ELSE LET e == EvalCounts(D, [isp |-> FALSE, mgl |-> 0], lines[i]) IN
        SumCounts(D, lines, i + 1, [lc |-> [x \in 0..(D.nl - 1) |-> acc.lc[x] + e.lc[x]], rc |-> [x \in 0..(D.nr - 1) |-> acc.rc[x] + e.rc[x]]])
CliOrder == /\ Is("cliorder")
            /\ LET z == [lc |-> [x \in 0..(dict.nl - 1) |-> 0], rc |-> [x \in 0..(dict.nr - 1) |-> 0]]
                   c == SumCounts([dict EXCEPT !.user = <<>>], E.lines, 1, z)     \* the dictionary FILE holds no user lexicon
               IN A("C13", "reorder-tool-orders-by-frequency", OrderOK(E.lo, c.lc, dict.nl) /\ OrderOK(E.ro, c.rc, dict.nr))
            /\ lastp' = <<E.lo, E.ro>>
            /\ UNCHANGED <<dict, opts, ws, cnt, memo, lastop>>

CliMapRel == /\ Is("climaprel")
             /\ LET pl == PermOfList(E.ll)  pr == PermOfList(E.rl) IN
                A("C06", "cli-tokens-equal-up-to-renaming",
                  /\ Len(E.after) = Len(E.before)
                  /\ \A i \in 1..Len(E.after) :
                        /\ E.after[i].surf = E.before[i].surf /\ E.after[i].f = E.before[i].f /\ E.after[i].lt = E.before[i].lt
                        /\ E.after[i].c = E.before[i].c /\ E.after[i].tot = E.before[i].tot
                        /\ E.after[i].l = pl[E.before[i].l + 1] /\ E.after[i].r = pr[E.before[i].r + 1])
             /\ UNCHANGED <<dict, opts, ws, cnt, memo, lastop, lastp>>

(* a tool that exits with an error where the library path succeeds *)
CliErr == Is("cli_err") /\ A("C10", "tool-failed", FALSE) /\ UNCHANGED <<dict, opts, ws, cnt, memo, lastop, lastp>>

Lift(a) == a /\ UNCHANGED <<lastop, lastp>>
DNext == \/ CliTok \/ CliWakati \/ CliOrder \/ CliMapRel \/ CliErr \/ DSession \/ Proj \/ User \/ Map \/ WR \/ MapRel \/ DProbs \/ Lift(CInit) \/ Lift(CUpd)
         \/ Lift(Renew) \/ Lift(BuildErr) \/ Lift(BigSent) \/ Lift(LongLife) \/ Lift(Reset) \/ Lift(Tok) \/ Lift(Read) \/ Lift(PanicStuck) \/ Lift(PanicElsewhere)
DSpec == DInit /\ [][DNext]_dvars
===========================================================================
