---------------------------- MODULE Trace_Dict ----------------------------
(* Trace validation of dictionary lifecycle sessions (C05 C06 C08, and the projection part
   of C11).  Extends the worker trace specification: tokenization events are validated
   against the abstract dictionary that THIS specification evolves through the operations
   of VDictOps - the dictionary is logged once, at `session`, never again. *)
EXTENDS Trace_Worker

VARIABLES lastop,        \* which operation the next projection belongs to (attribution)
          lastp          \* the two id orders most recently reported by compute_connid_probs (reorder -> map pipeline)
dvars == <<vars, lastop, lastp>>

DInit == Init /\ lastop = "build" /\ lastp = <<>>

OwnerOf(op) == IF op = "user" THEN "C08" ELSE IF op = "map" THEN "C06" ELSE IF op = "wr" THEN "C05" ELSE "C11"

DSession == Session /\ lastop' = "build" /\ lastp' = <<>>
DProbs == Probs /\ lastp' = <<E.lo, E.ro>> /\ UNCHANGED lastop

(* the dictionary shows exactly the abstract value *)
Proj == /\ Is("proj")
        /\ A(OwnerOf(lastop), "projection-after-" \o lastop, E.p = Project(dict))
        /\ UNCHANGED <<dict, opts, ws, cnt, memo, lastop, lastp>>

User == /\ Is("user")
        /\ IF E.clear
           THEN /\ A("C08", "clear-accepted", E.ok)
                /\ dict' = ClearUser(dict)
           ELSE LET valid == RowsValid(dict, E.rows) IN
                /\ A("C08", "user-lexicon-accepted-iff-valid", E.ok = valid)
                /\ A("C10", "invalid-user-lexicon-rejected", ~valid => ~E.ok)
                /\ dict' = IF E.ok THEN SetUser(dict, E.rows) ELSE dict
        /\ lastop' = "user" /\ memo' = {}
        /\ UNCHANGED <<opts, ws, cnt, lastp>>

Map == /\ Is("map")
       /\ LET valid == MapValid(dict, E.ll, E.rl) IN
          /\ A("C06", "mapping-accepted-iff-valid", E.ok = valid)
          /\ A("C10", "malformed-mapping-rejected", ~valid => ~E.ok)
          (* C13: what the reorder tool writes is always accepted by the map tool *)
          /\ A("C13", "reorder-output-accepted-by-map", (lastp = <<E.ll, E.rl>>) => E.ok)
          /\ dict' = IF E.ok /\ valid THEN TLCEval(MapDict(dict, E.ll, E.rl)) ELSE dict
       /\ lastop' = "map" /\ memo' = {}
       /\ UNCHANGED <<opts, ws, cnt, lastp>>

(* write; read; write again: the abstract value is unchanged (checked by the projection that
   follows), write reports what it emitted, and the bytes are reproduced *)
WR == /\ Is("wr")
      /\ A("C05", "read-accepts-own-image", E.ok)
      /\ A("C05", "write-reports-emitted-length", E.ret = E.emitted)
      /\ A("C05", "rewrite-reproduces-bytes", E.h1 = E.h2 /\ E.len2 = E.emitted)
      /\ lastop' = "wr"
      /\ UNCHANGED <<dict, opts, ws, cnt, memo, lastp>>

(* relational clause of C06: same tokens, ids renamed by the permutation *)
MapRel == /\ Is("maprel")
          /\ A("C06", "tokens-equal-up-to-renaming",
               CoreSeq(E.after) = RenameToks(CoreSeq(E.before), PermOfList(E.ll), PermOfList(E.rl)))
          /\ A("C06", "surfaces-and-features-equal",
               /\ Len(E.after) = Len(E.before)
               /\ \A i \in 1..Len(E.after) : E.after[i].surf = E.before[i].surf /\ E.after[i].f = E.before[i].f)
          /\ UNCHANGED <<dict, opts, ws, cnt, memo, lastop, lastp>>

Lift(a) == a /\ UNCHANGED <<lastop, lastp>>
DNext == \/ DSession \/ Proj \/ User \/ Map \/ WR \/ MapRel \/ DProbs \/ Lift(CInit) \/ Lift(CUpd)
         \/ Lift(Reset) \/ Lift(Tok) \/ Lift(Read) \/ Lift(PanicStuck) \/ Lift(PanicElsewhere)
DSpec == DInit /\ [][DNext]_dvars
===========================================================================
