---------------------------- MODULE MC_Conn ----------------------------
(* C07: (i) the XOR double array answers exactly the inserted key pairs, for every key set
   over a small key space; (ii) the raw connector's operational cost (interning, padding,
   double array) equals the defining sum DefCost for every small bigram model and every id
   pair including the BOS/EOS id 0. *)
EXTENDS VScorer, Json
CONSTANTS Mode,      \* "scorer" | "model"
          K,         \* maximal number of templates of a row (model mode)
          Lane,
          Emit       \* TRUE: print every model (for the replayer)

(* ---------- (i) ---------- *)
Keys == (0..3) \X (0..3)
VARIABLE x
InitS == x \in SUBSET Keys
CostOfKey(k) == 10 * k[1] + k[2] + 1
ScorerCorrect ==
   LET S == {<<k[1], k[2], CostOfKey(k)>> : k \in x}
       Tb == TLCEval(ScorerBuild(S))
   IN /\ \A k \in Keys : Retrieve(Tb, k[1], k[2]) = IF k \in x THEN CostOfKey(k) ELSE NONE
      /\ \A b \in 0..3 : Retrieve(Tb, INVALID, b) = NONE
      /\ \A a \in 0..3 : Retrieve(Tb, a, INVALID) = NONE

(* ---------- (ii) ---------- *)
Feats == {"", "a", "b", "*"}
Rows == UNION {[1..k -> Feats] : k \in 1..K}
Pairs == {<<"a", "a">>, <<"a", "b">>, <<"b", "a">>, <<"", "a">>, <<"b", "">>, <<"", "b">>}
PairCostVal(p) == IF p[1] = "a" THEN 5 ELSE IF p[1] = "b" THEN -3 ELSE 7
CostTables == {t \in SUBSET Pairs : Cardinality(t) <= 3}
TabSeq(t) == LET sq == CHOOSE q \in [1..Cardinality(t) -> t] : \A i, j \in 1..Cardinality(t) : q[i] = q[j] => i = j
             IN [i \in 1..Cardinality(t) |-> [rf |-> sq[i][1], lf |-> sq[i][2], c |-> PairCostVal(sq[i]) + i]]
InitM == x \in [R : {<<r>> : r \in Rows} \cup {<<r, <<"b">>>> : r \in Rows},
                L : {<<r>> : r \in Rows},
                t : CostTables]
Model == [R |-> x.R, L |-> x.L, cost |-> TabSeq(x.t)]
RawEqualsDef ==
   LET M == Model IN
   \A r \in 0..Len(M.R), l \in 0..Len(M.L) : RawCost(M, Lane, r, l) = DefCost(M, r, l)

Init == IF Mode = "scorer" THEN InitS ELSE InitM
Next == UNCHANGED x
Spec == Init /\ [][Next]_x
EmitInv == (Emit /\ Mode = "model") => PrintT(<<"GEN", ToJson([bg |-> Model])>>)
Inv == IF Mode = "scorer" THEN ScorerCorrect ELSE RawEqualsDef
========================================================================
