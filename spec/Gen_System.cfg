SPECIFICATION Spec
CONSTANTS
  Depth = 4
INVARIANTS Equivalent MappingValid Emit
CHECK_DEADLOCK FALSE
