---------------------------- MODULE VScorer ----------------------------
(* Implementation-shaped layer of the raw bigram connector (C07):
   interning of feature strings (RawConnectorBuilder::parse_cost / parse_features), padding of
   the id rows to a lane multiple with INVALID and a zero BOS row (RawConnector::from_readers),
   the XOR double array (ScorerBuilder::build) and its lookup (Scorer::retrieve_cost).
   Lane is the SIMD width (8 in the code; a constant here so that small models exercise the
   padding). *)
EXTENDS VConn, Bitwise

INVALID == 2147483647
UNUSED == -1
NONE == -999999

(* ---- interning: "" -> 0, then first appearance order over the cost lines ---- *)
RECURSIVE InternSeq(_, _, _)
InternSeq(strs, i, acc) ==      \* acc : sequence of distinct strings, position - 1 = id
   IF i > Len(strs) THEN acc
   ELSE IF \E k \in 1..Len(acc) : acc[k] = strs[i] THEN InternSeq(strs, i + 1, acc)
        ELSE InternSeq(strs, i + 1, Append(acc, strs[i]))
RightNames(M) == InternSeq([i \in 1..Len(M.cost) |-> M.cost[i].rf], 1, <<"">>)
LeftNames(M) == InternSeq([i \in 1..Len(M.cost) |-> M.cost[i].lf], 1, <<"">>)
IdOf(names, f) == IF \E k \in 1..Len(names) : names[k] = f
                  THEN (CHOOSE k \in 1..Len(names) : names[k] = f) - 1 ELSE INVALID

(* ---- rows: width = templates rounded up to a lane multiple (at least one lane group) ---- *)
Width(M, Lane) == LET k == NumTemplates(M) IN ((((IF k = 0 THEN 1 ELSE k) - 1) \div Lane) * Lane) + Lane
PadRow(names, row, w) == [k \in 1..w |-> IF k <= Len(row) THEN IdOf(names, row[k]) ELSE INVALID]
RowIds(names, rows, id, w) == IF id = 0 THEN [k \in 1..w |-> 0] ELSE PadRow(names, rows[id], w)

(* ---- two-level map: key1 -> (key2 -> cost); a later line replaces an earlier one ---- *)
Entries(M) == LET rn == RightNames(M)  ln == LeftNames(M) IN
   {<<IdOf(rn, M.cost[i].rf), IdOf(ln, M.cost[i].lf), M.cost[i].c>> :
       i \in {i \in 1..Len(M.cost) : ~\E j \in (i + 1)..Len(M.cost) :
                                        M.cost[j].rf = M.cost[i].rf /\ M.cost[j].lf = M.cost[i].lf}}
Second(S, a) == {e[2] : e \in {e \in S : e[1] = a}}
CostIn(S, a, b) == (CHOOSE e \in S : e[1] = a /\ e[2] = b)[3]

(* ---- XOR double array ---- *)
CheckBase(base, sec, checks) == \A b \in sec : LET pos == base ^^ b IN pos >= Len(checks) \/ checks[pos + 1] = UNUSED
RECURSIVE FindBase(_, _, _)
FindBase(base, sec, checks) == IF CheckBase(base, sec, checks) THEN base ELSE FindBase(base + 1, sec, checks)
Pad(seq, n, v) == IF Len(seq) >= n THEN seq ELSE seq \o [i \in 1..(n - Len(seq)) |-> v]
RECURSIVE Place(_, _, _, _, _, _)
Place(S, a, base, todo, checks, costs) ==
   IF todo = {} THEN <<checks, costs>>
   ELSE LET b == SetMin(todo)
            pos == base ^^ b
            ch == Pad(checks, pos + 1, UNUSED)  co == Pad(costs, pos + 1, 0)
        IN Place(S, a, base, todo \ {b}, [ch EXCEPT ![pos + 1] = a], [co EXCEPT ![pos + 1] = CostIn(S, a, b)])
RECURSIVE BuildFrom(_, _, _, _, _, _)
BuildFrom(S, a, n, bases, checks, costs) ==
   IF a >= n THEN [bases |-> bases, checks |-> checks, costs |-> costs]
   ELSE LET sec == Second(S, a)
            base == FindBase(0, sec, checks)
            pc == Place(S, a, base, sec, checks, costs)
        IN BuildFrom(S, a + 1, n, Append(bases, base), pc[1], pc[2])
(* trie length = largest key1 + 1 *)
ScorerBuild(S) == LET n == IF S = {} THEN 0 ELSE SetMax({e[1] : e \in S}) + 1 IN BuildFrom(S, 0, n, <<>>, <<>>, <<>>)
Retrieve(Tb, a, b) ==
   IF a >= Len(Tb.bases) THEN NONE
   ELSE LET pos == Tb.bases[a + 1] ^^ b IN
        IF pos >= Len(Tb.checks) THEN NONE
        ELSE IF Tb.checks[pos + 1] = a THEN Tb.costs[pos + 1] ELSE NONE

(* ---- the raw connector's cost ---- *)
RawCost(M, Lane, r, l) ==
   LET w == Width(M, Lane)
       rr == RowIds(RightNames(M), M.R, r, w)
       lr == RowIds(LeftNames(M), M.L, l, w)
       Tb == ScorerBuild(Entries(M))
       term(k) == LET x == Retrieve(Tb, rr[k], lr[k]) IN IF x = NONE THEN 0 ELSE x
   IN SumTo([k \in 1..w |-> term(k)], 1, w)
========================================================================
