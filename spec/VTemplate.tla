---------------------------- MODULE VTemplate ----------------------------
(* Feature templates (C18).  A template is a sequence of parts
     [k |-> "lit", v |-> STRING] | [k |-> "ref", i |-> Nat] | [k |-> "opt", i |-> Nat] | [k |-> "type"]
   (%F[i] / %L[i] / %R[i] = "ref", the '?' forms = "opt", %t = "type"; indices 0-based as in
   feature.def).  Expand gives the feature string or nothing; InternRows assigns ids by first
   appearance, separately for the unigram, left and right sides. *)
EXTENDS VBase

FeatAt(fs, i) == IF i + 1 <= Len(fs) THEN fs[i + 1] ELSE "*"
Suppressed(tpl, fs) == \E p \in 1..Len(tpl) : tpl[p].k = "opt" /\ FeatAt(fs, tpl[p].i) = "*"
RECURSIVE Concat(_, _, _, _)
Concat(tpl, fs, cate, p) ==
   IF p > Len(tpl) THEN ""
   ELSE (CASE tpl[p].k = "lit" -> tpl[p].v
           [] tpl[p].k = "type" -> ToString(cate)
           [] OTHER -> FeatAt(fs, tpl[p].i)) \o Concat(tpl, fs, cate, p + 1)
Expand(tpl, fs, cate) == IF Suppressed(tpl, fs) THEN [some |-> FALSE, s |-> ""] ELSE [some |-> TRUE, s |-> Concat(tpl, fs, cate, 1)]

(* interning table: sequence of strings, position = id *)
IdIn(tab, s) == IF \E k \in 1..Len(tab) : tab[k] = s THEN CHOOSE k \in 1..Len(tab) : tab[k] = s ELSE 0
RECURSIVE ExpandRow(_, _, _, _, _, _)
ExpandRow(tpls, fs, cate, t, tab, acc) ==       \* returns [tab, ids]; id 0 = no feature
   IF t > Len(tpls) THEN [tab |-> tab, ids |-> acc]
   ELSE LET e == Expand(tpls[t], fs, cate) IN
        IF ~e.some THEN ExpandRow(tpls, fs, cate, t + 1, tab, Append(acc, 0))
        ELSE LET k == IdIn(tab, e.s) IN
             IF k # 0 THEN ExpandRow(tpls, fs, cate, t + 1, tab, Append(acc, k))
             ELSE ExpandRow(tpls, fs, cate, t + 1, Append(tab, e.s), Append(acc, Len(tab) + 1))

(* T : [uni : Seq(template), left : Seq(template), right : Seq(template)]
   rows : Seq([kind : 0..2, feats : Seq(STRING), cate : Nat]);   result [tabs, ids] *)
RECURSIVE InternRows(_, _, _, _, _)
InternRows(T, rows, i, tabs, acc) ==
   IF i > Len(rows) THEN [tabs |-> tabs, ids |-> acc]
   ELSE LET r == rows[i]
            which == IF r.kind = 0 THEN "uni" ELSE IF r.kind = 1 THEN "left" ELSE "right"
            x == ExpandRow(T[which], r.feats, r.cate, 1, tabs[which], <<>>)
            shown == IF r.kind = 0 THEN SelectSeq(x.ids, LAMBDA k : k # 0) ELSE x.ids   \* unigram: only the produced ones
        IN InternRows(T, rows, i + 1, [tabs EXCEPT ![which] = x.tab], Append(acc, shown))
Intern(T, rows) == InternRows(T, rows, 1, [uni |-> <<>>, left |-> <<>>, right |-> <<>>], <<>>)
==========================================================================
