---------------------------- MODULE Gen_Worker ----------------------------
(* Behaviour generator (specification -> implementation): every history of public calls of
   one worker that the specification VWorker allows, up to Depth calls, printed as a session
   input for the replayer.  The history variable is kept on purpose (one state per
   behaviour).  The counter is initialised first so that UpdateCounts is enabled. *)
EXTENDS VBase, Json
CONSTANTS Depth, IgnoreSpace

Dict0 == [ cats |-> << [invoke |-> 0, group |-> 1, length |-> 0],
                       [invoke |-> 0, group |-> 1, length |-> 0],
                       [invoke |-> 1, group |-> 0, length |-> 2] >>,
           space |-> 1,
           ranges |-> << [lo |-> 32, hi |-> 32, cs |-> <<1>>], [lo |-> 97, hi |-> 97, cs |-> <<2>>] >>,
           lex |-> << [s |-> <<97>>, l |-> 1, r |-> 0, c |-> -2, f |-> "a"],
                      [s |-> <<97, 98>>, l |-> 0, r |-> 1, c |-> 1, f |-> "ab"],
                      [s |-> <<98, 97>>, l |-> 1, r |-> 1, c |-> 4, f |-> "ba"] >>,
           user |-> <<>>,
           unk |-> << [cat |-> 0, l |-> 0, r |-> 1, c |-> 7, f |-> "uD"],
                      [cat |-> 1, l |-> 1, r |-> 0, c |-> 2, f |-> "uS"],
                      [cat |-> 2, l |-> 1, r |-> 1, c |-> 4, f |-> "uA"] >>,
           nr |-> 2, nl |-> 2, mat |-> <<0, 2, -3, -1>> ]
Sents0 == { <<>>, <<97>>, <<97, 98, 97, 98>>, <<97, 98, 32>> }

VARIABLES wsent, wtk, wtop, wlat, wcnt, wexp, hist
W == INSTANCE VWorker WITH Workers <- {1}, WDict <- Dict0, WOpts <- [isp |-> IgnoreSpace, mgl |-> 0],
                      WSents <- Sents0, TokenizeAppends <- FALSE, StaleLattice <- FALSE, EosCountAtLen <- FALSE

Init == /\ wsent = [w \in {1} |-> <<>>] /\ wtk = [w \in {1} |-> FALSE] /\ wtop = [w \in {1} |-> <<>>]
        /\ wlat = [w \in {1} |-> W!NoLat]
        /\ wcnt = [w \in {1} |-> [on |-> TRUE, lc |-> W!ZeroL, rc |-> W!ZeroR]]
        /\ wexp = [w \in {1} |-> [on |-> TRUE, lc |-> W!ZeroL, rc |-> W!ZeroR]]
        /\ hist = << [op |-> "cinit", w |-> 1] >>
Step == \/ \E s \in Sents0 : W!ResetSentence(1, s) /\ hist' = Append(hist, [op |-> "reset", w |-> 1, s |-> s])
        \/ W!Tokenize(1) /\ hist' = Append(hist, [op |-> "tok", w |-> 1])
        \/ W!UpdateCounts(1) /\ hist' = Append(hist, [op |-> "cupd", w |-> 1])
        \/ UNCHANGED <<wsent, wtk, wtop, wlat, wcnt, wexp>> /\ hist' = Append(hist, [op |-> "read", w |-> 1])
Next == Len(hist) < Depth + 1 /\ Step
Spec == Init /\ [][Next]_<<wsent, wtk, wtop, wlat, wcnt, wexp, hist>>

Session == [D |-> Dict0, O |-> [isp |-> IgnoreSpace, mgl |-> 0], nw |-> 1, lattice |-> TRUE, ops |-> hist]
Emit == Len(hist) = Depth + 1 => PrintT(<<"GEN", ToJson(Session)>>)
(* the generated behaviours satisfy the specification's own invariants *)
Sound == W!Determinism /\ W!CountsExact
===========================================================================
