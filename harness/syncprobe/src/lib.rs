//! Compile-time probe for C04: "The tokenizer can be shared across threads."
//! If this crate fails to build while the harness builds, the tokenizer or the dictionary
//! lost `Send + Sync` (e.g. through new interior mutability).
fn assert_send_sync<T: Send + Sync>() {}

pub fn probe() {
    assert_send_sync::<vibrato::Tokenizer>();
    assert_send_sync::<vibrato::Dictionary>();
    // a worker can be moved to the thread that uses it
    fn assert_send<T: Send>() {}
    assert_send::<vibrato::tokenizer::worker::Worker<'static>>();
}
