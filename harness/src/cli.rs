//! The command-line tools as a black box (compile, tokenize, reorder, map): the tool chain
//! compile -> tokenize, compile -> reorder -> map -> tokenize on random dictionaries.  Only
//! files and standard streams are used; what the tools print is logged and validated by the
//! trace specification against the abstract dictionary.
use std::collections::HashMap;
use std::io::Write;
use std::process::{Command, Stdio};

use serde_json::{json, Value};

use crate::adict::*;
use crate::gen::*;
use crate::rng::Rng;

fn run(bin: &str, args: &[&str], stdin: &str) -> (bool, String) {
    let mut cmd = Command::new(bin);
    cmd.args(args);
    let (ok, out, _) = crate::progress::run_tool(cmd, Some(stdin));
    (ok, out)
}

fn lt_of(s: &str) -> u8 {
    match s {
        "System" => 0,
        "User" => 1,
        _ => 2,
    }
}

/// Parses `tokenize -O detail` output into one token list per input line.
fn parse_detail(out: &str) -> Vec<Vec<Value>> {
    let mut res = vec![];
    let mut cur = vec![];
    for line in out.lines() {
        if line == "EOS" {
            res.push(std::mem::take(&mut cur));
            continue;
        }
        let p: Vec<&str> = line.split('\t').collect();
        if p.len() != 7 {
            cur.push(json!({"malformed": line}));
            continue;
        }
        let num = |x: &str| -> i64 { x.split('=').nth(1).and_then(|v| v.parse().ok()).unwrap_or(-999999) };
        cur.push(json!({"surf": string_to_cps(p[0]), "f": p[1], "lt": lt_of(p[2].trim_start_matches("lex_type=")),
                        "l": num(p[3]), "r": num(p[4]), "c": num(p[5]), "tot": num(p[6])}));
    }
    res
}

fn parse_ids(text: &str) -> Vec<u32> {
    text.lines().filter_map(|l| l.split('\t').next().and_then(|x| x.parse().ok())).collect()
}

pub fn pipeline(a: &HashMap<String, String>) -> i32 {
    let seed: u64 = a.get("seed").and_then(|s| s.parse().ok()).unwrap_or(1);
    let n: usize = a.get("n").and_then(|s| s.parse().ok()).unwrap_or(10);
    let bins = a.get("bins").expect("--bins");
    let tmp = a.get("tmp").expect("--tmp");
    let out = a.get("out").expect("--out");
    let bin = |b: &str| format!("{bins}/{b}");
    let mut rng = Rng::new(seed ^ 0xC11);
    let mut evs: Vec<Value> = vec![];
    for i in 0..n {
        let kind = (i % 3) as u8;
        let cfg = GenCfg { conn_kind: kind, ..Default::default() };
        let d = gen_dict(&mut rng, &cfg);
        let dir = format!("{tmp}/s{i}");
        std::fs::create_dir_all(&dir).unwrap();
        let p = |f: &str| format!("{dir}/{f}");
        std::fs::write(p("lex.csv"), ADict::render_lex(&d.lex)).unwrap();
        std::fs::write(p("char.def"), d.render_char_def()).unwrap();
        std::fs::write(p("unk.def"), d.render_unk()).unwrap();
        let (lexf, charf, unkf, dic) = (p("lex.csv"), p("char.def"), p("unk.def"), p("system.dic.zst"));
        let mut cargs: Vec<String> = vec!["-l".into(), lexf.clone(), "-c".into(), charf.clone(), "-u".into(), unkf.clone(), "-o".into(), dic.clone()];
        match &d.conn {
            AConn::Matrix { nr, nl, mat } => {
                std::fs::write(p("matrix.def"), ADict::render_matrix(*nr, *nl, mat)).unwrap();
                cargs.extend(["-m".into(), p("matrix.def")]);
            }
            AConn::Bigram { dual, model } => {
                let (r, l, c) = ADict::render_bigram(model);
                std::fs::write(p("bigram.right"), r).unwrap();
                std::fs::write(p("bigram.left"), l).unwrap();
                std::fs::write(p("bigram.cost"), c).unwrap();
                cargs.extend(["--bigram-right-in".into(), p("bigram.right"), "--bigram-left-in".into(), p("bigram.left"), "--bigram-cost-in".into(), p("bigram.cost")]);
                if *dual {
                    cargs.push("--dual-connector".into());
                }
            }
        }
        let cref: Vec<&str> = cargs.iter().map(|s| s.as_str()).collect();
        let (ok, _) = run(&bin("compile"), &cref, "");
        if !ok {
            evs.push(json!({"ev": "cli_err", "tool": "compile", "D": d.to_json()}));
            continue;
        }
        let isp = d.space_cat() >= 0 && rng.chance(1, 2);
        let mgl = *rng.pick(&[0usize, 1, 2, 3]);
        let mut sents: Vec<Vec<u32>> = (0..6).map(|_| gen_sentence(&mut rng, &d, 10)).map(|s| s.into_iter().filter(|&c| c != 0x0A && c != 0x0D).collect()).collect();
        // long runs of one character: the grouping limit (-M) matters exactly at run = limit + 1 / + 2
        for k in 0..3 {
            let ch = *rng.pick(LETTERS);
            let mut s: Vec<u32> = vec![ch; mgl + 1 + k];
            s.push(*rng.pick(LETTERS));
            sents.push(s);
        }
        let stdin: String = sents.iter().map(|s| cps_to_string(s) + "\n").collect();
        let mut targs: Vec<String> = vec!["-i".into(), dic.clone(), "-O".into(), "detail".into()];
        if isp {
            targs.push("-S".into());
        }
        if mgl != 0 {
            targs.extend(["-M".into(), mgl.to_string()]);
        }
        if let Some(u) = &d.user {
            std::fs::write(p("user.csv"), ADict::render_lex(u)).unwrap();
            targs.extend(["-u".into(), p("user.csv")]);
        }
        evs.push(json!({"ev": "session", "D": d.to_json(), "O": {"isp": isp, "mgl": mgl}, "nw": 1}));
        let tokenize = |dicpath: &str, evs: &mut Vec<Value>| -> Option<Vec<Vec<Value>>> {
            let mut ta = targs.clone();
            ta[1] = dicpath.to_string();
            let tref: Vec<&str> = ta.iter().map(|s| s.as_str()).collect();
            let (ok, text) = run(&bin("tokenize"), &tref, &stdin);
            if !ok {
                evs.push(json!({"ev": "cli_err", "tool": "tokenize"}));
                return None;
            }
            let toks = parse_detail(&text);
            for (s, t) in sents.iter().zip(&toks) {
                evs.push(json!({"ev": "clitok", "s": s, "toks": t}));
            }
            if toks.len() != sents.len() {
                evs.push(json!({"ev": "cli_err", "tool": "tokenize-lines", "got": toks.len(), "want": sents.len()}));
            }
            Some(toks)
        };
        let before = match tokenize(&dic, &mut evs) {
            Some(t) => t,
            None => continue,
        };
        // the third output mode: one line per sentence, surfaces separated by single blanks
        {
            let mut ta = targs.clone();
            ta[3] = "wakati".to_string();
            let tref: Vec<&str> = ta.iter().map(|s| s.as_str()).collect();
            let (ok, text) = run(&bin("tokenize"), &tref, &stdin);
            if !ok {
                evs.push(json!({"ev": "cli_err", "tool": "tokenize-wakati"}));
            } else {
                let wl: Vec<&str> = text.split('\n').collect();
                for (i, (s, t)) in sents.iter().zip(&before).enumerate() {
                    let line: Vec<u32> = wl.get(i).map(|l| l.chars().map(|c| c as u32).collect()).unwrap_or_default();
                    let surfs: Vec<Value> = t.iter().map(|x| x["surf"].clone()).collect();
                    evs.push(json!({"ev": "cliwakati", "s": s, "line": line, "surfs": surfs, "nlines": wl.len(), "want_lines": sents.len() + 1}));
                }
            }
        }
        // reorder (training lines incl. an empty and a repeated one) -> map -> tokenize
        let mut lines: Vec<Vec<u32>> = sents[..3].to_vec();
        if rng.chance(1, 2) {
            lines.insert(0, vec![]);
        }
        lines.push(sents[0].clone());
        let tstdin: String = lines.iter().map(|s| cps_to_string(s) + "\n").collect();
        let (ok, _) = run(&bin("reorder"), &["-i", &dic, "-o", &p("mapping")], &tstdin);
        if !ok {
            evs.push(json!({"ev": "cli_err", "tool": "reorder"}));
            continue;
        }
        let lo = parse_ids(&std::fs::read_to_string(p("mapping.lmap")).unwrap_or_default());
        let ro = parse_ids(&std::fs::read_to_string(p("mapping.rmap")).unwrap_or_default());
        // the reorder tool tokenizes WITHOUT ignore_space / max_grouping_len
        evs.push(json!({"ev": "cliorder", "lines": lines, "lo": lo, "ro": ro}));
        let dic2 = p("mapped.dic.zst");
        let (ok, _) = run(&bin("map"), &["-i", &dic, "-m", &p("mapping"), "-o", &dic2], "");
        evs.push(json!({"ev": "map", "ll": lo, "rl": ro, "ok": ok}));
        if !ok {
            continue;
        }
        if let Some(after) = tokenize(&dic2, &mut evs) {
            for ((s, b), a2) in sents.iter().zip(&before).zip(&after) {
                evs.push(json!({"ev": "climaprel", "s": s, "ll": lo, "rl": ro, "before": b, "after": a2}));
            }
        }
        let _ = std::fs::remove_dir_all(&dir);
    }
    let mut f = std::io::BufWriter::new(std::fs::File::create(out).expect("create"));
    for e in &evs {
        writeln!(f, "{}", e).unwrap();
    }
    0
}

/// Replays TLC-generated tool-chain histories (Gen_System) with the real binaries.
pub fn histories(a: &HashMap<String, String>) -> i32 {
    let bins = a.get("bins").expect("--bins");
    let tmp = a.get("tmp").expect("--tmp");
    let out = a.get("out").expect("--out");
    let inp = a.get("in").expect("--in");
    let bin = |b: &str| format!("{bins}/{b}");
    let text = std::fs::read_to_string(inp).expect("read");
    let mut evs: Vec<Value> = vec![];
    let seq = |x: &Value| -> Vec<u32> { x.as_array().map(|a| a.iter().map(|c| c.as_u64().unwrap() as u32).collect()).unwrap_or_default() };
    for (hi, line) in text.lines().filter(|l| !l.trim().is_empty()).enumerate() {
        let v: Value = serde_json::from_str(line).expect("json");
        let d = ADict::from_json(&v["defs"]);
        let dir = format!("{tmp}/h{hi}");
        std::fs::create_dir_all(&dir).unwrap();
        let p = |f: &str| format!("{dir}/{f}");
        std::fs::write(p("lex.csv"), ADict::render_lex(&d.lex)).unwrap();
        std::fs::write(p("char.def"), d.render_char_def()).unwrap();
        std::fs::write(p("unk.def"), d.render_unk()).unwrap();
        if let AConn::Matrix { nr, nl, mat } = &d.conn {
            std::fs::write(p("matrix.def"), ADict::render_matrix(*nr, *nl, mat)).unwrap();
        }
        let user = ADict::from_json(&json!({"cats": v["defs"]["cats"], "space": v["defs"]["space"], "lex": v["user"], "nr": 1, "nl": 1, "mat": [0]}));
        std::fs::write(p("user.csv"), ADict::render_lex(&user.lex)).unwrap();
        let probes: Vec<Vec<u32>> = v["probes"].as_array().unwrap().iter().map(seq).collect();
        let stdin: String = probes.iter().map(|s| cps_to_string(s) + "\n").collect();
        evs.push(json!({"ev": "syssession", "defs": v["defs"], "user": v["user"], "linesets": v["linesets"], "probes": v["probes"]}));
        let dic = p("system.dic.zst");
        for op in v["hist"].as_array().unwrap() {
            match op["tool"].as_str().unwrap() {
                "compile" => {
                    let (ok, _) = run(&bin("compile"), &["-l", &p("lex.csv"), "-m", &p("matrix.def"), "-c", &p("char.def"), "-u", &p("unk.def"), "-o", &dic], "");
                    evs.push(json!({"ev": "sys", "tool": "compile", "ok": ok}));
                }
                "reorder" => {
                    let k = op["lines"].as_u64().unwrap() as usize;
                    let lines: Vec<Vec<u32>> = v["linesets"][k - 1].as_array().unwrap().iter().map(seq).collect();
                    let tstdin: String = lines.iter().map(|s| cps_to_string(s) + "\n").collect();
                    let (ok, _) = run(&bin("reorder"), &["-i", &dic, "-o", &p("mapping")], &tstdin);
                    let lo = parse_ids(&std::fs::read_to_string(p("mapping.lmap")).unwrap_or_default());
                    let ro = parse_ids(&std::fs::read_to_string(p("mapping.rmap")).unwrap_or_default());
                    evs.push(json!({"ev": "sys", "tool": "reorder", "ok": ok, "lines": k, "lo": lo, "ro": ro}));
                }
                "map" => {
                    let tmpdic = p("mapped.tmp.zst");
                    let (ok, _) = run(&bin("map"), &["-i", &dic, "-m", &p("mapping"), "-o", &tmpdic], "");
                    if ok {
                        let _ = std::fs::rename(&tmpdic, &dic);
                    } else {
                        let _ = std::fs::remove_file(&tmpdic);
                    }
                    evs.push(json!({"ev": "sys", "tool": "map", "ok": ok}));
                }
                _ => {
                    let isp = op["isp"].as_bool().unwrap_or(false);
                    let withuser = op["user"].as_bool().unwrap_or(false);
                    let mut ta: Vec<String> = vec!["-i".into(), dic.clone(), "-O".into(), "detail".into()];
                    if isp {
                        ta.push("-S".into());
                    }
                    if withuser {
                        ta.extend(["-u".into(), p("user.csv")]);
                    }
                    let tref: Vec<&str> = ta.iter().map(|s| s.as_str()).collect();
                    let (ok, text) = run(&bin("tokenize"), &tref, &stdin);
                    let toks = if ok { parse_detail(&text) } else { vec![] };
                    evs.push(json!({"ev": "sys", "tool": "tokenize", "ok": ok, "isp": isp, "user": withuser, "toks": toks}));
                }
            }
        }
        let _ = std::fs::remove_dir_all(&dir);
    }
    let mut f = std::io::BufWriter::new(std::fs::File::create(out).expect("create"));
    for e in &evs {
        writeln!(f, "{}", e).unwrap();
    }
    0
}

/// The example program mecab_smalldic (MeCab model files -> compiled small dictionary) followed by
/// `tokenize -O detail` on two-word probe sentences: the connection cost of every pair of non-zero
/// ids is read off the printed total costs.
pub fn mecab(a: &HashMap<String, String>) -> i32 {
    use crate::trainer_cases::gen_mecab_case;
    let seed: u64 = a.get("seed").and_then(|s| s.parse().ok()).unwrap_or(1);
    let n: usize = a.get("n").and_then(|s| s.parse().ok()).unwrap_or(10);
    let bins = a.get("bins").expect("--bins");
    let tmp = a.get("tmp").expect("--tmp");
    let out = a.get("out").expect("--out");
    let bin = |b: &str| format!("{bins}/{b}");
    let mut rng = Rng::new(seed ^ 0x3ECA);
    let mut evs: Vec<Value> = vec![];
    for i in 0..n {
        let c = gen_mecab_case(&mut rng);
        let dir = format!("{tmp}/m{i}");
        std::fs::create_dir_all(&dir).unwrap();
        let p = |f: &str| format!("{dir}/{f}");
        std::fs::write(p("feature.def"), &c.fdef).unwrap();
        std::fs::write(p("right-id.def"), &c.rtext).unwrap();
        std::fs::write(p("left-id.def"), &c.ltext).unwrap();
        std::fs::write(p("model.def"), &c.mtext).unwrap();
        // one single-character word per right id (W_r) and per left id (V_l); no other candidates
        let mut lex = String::new();
        for r in 1..c.nr {
            lex.push_str(&format!("{},1,{},0,W{}\n", char::from_u32(0x4E00 + r as u32).unwrap(), r, r));
        }
        for l in 1..c.nl {
            lex.push_str(&format!("{},{},1,0,V{}\n", char::from_u32(0x5000 + l as u32).unwrap(), l, l));
        }
        std::fs::write(p("lex.csv"), lex).unwrap();
        std::fs::write(p("char.def"), "DEFAULT 0 1 0\n").unwrap();
        std::fs::write(p("unk.def"), "DEFAULT,0,0,30000,*\n").unwrap();
        let factor = format!("{}", c.factor);
        let (ok, _) = run(&bin("mecab_smalldic"), &["-l", &p("lex.csv"), "-u", &p("unk.def"), "-c", &p("char.def"), "-f", &p("feature.def"),
                                                   "-a", &p("right-id.def"), "-b", &p("left-id.def"), "-m", &p("model.def"), "-r", &factor, "-o", &p("small.dic.zst")], "");
        let mut costs = vec![0i64; c.nr * c.nl];
        let mut probed = true;
        if ok {
            let mut stdin = String::new();
            for r in 1..c.nr {
                for l in 1..c.nl {
                    stdin.push(char::from_u32(0x4E00 + r as u32).unwrap());
                    stdin.push(char::from_u32(0x5000 + l as u32).unwrap());
                    stdin.push('\n');
                }
            }
            let (tok_ok, text) = run(&bin("tokenize"), &["-i", &p("small.dic.zst"), "-O", "detail"], &stdin);
            let toks = parse_detail(&text);
            let mut k = 0;
            for r in 1..c.nr {
                for l in 1..c.nl {
                    match toks.get(k) {
                        Some(t) if tok_ok && t.len() == 2 => {
                            costs[l * c.nr + r] = t[1]["tot"].as_i64().unwrap_or(0) - t[0]["tot"].as_i64().unwrap_or(0) - t[1]["c"].as_i64().unwrap_or(0);
                        }
                        _ => probed = false,
                    }
                    k += 1;
                }
            }
        }
        evs.push(json!({"ev": "mecab", "d": c.d, "malformed": c.malformed, "ok": ok, "compiled": ok && probed, "nr": c.nr, "nl": c.nl, "costs": costs, "tool": true}));
        let _ = std::fs::remove_dir_all(&dir);
    }
    let mut f = std::io::BufWriter::new(std::fs::File::create(out).expect("create"));
    for e in &evs {
        writeln!(f, "{}", e).unwrap();
    }
    0
}
