//! Worker sessions: histories of public calls on workers of one tokenizer.
//! `record` generates random histories, `replay` reads histories (TLC-generated or replay
//! files); both execute them on the real code and write the observed trace as ndjson.
use std::collections::HashMap;
use std::io::Write;
use std::panic::{catch_unwind, AssertUnwindSafe};

use serde_json::{json, Value};
use vibrato::tokenizer::worker::Worker;
use vibrato::Tokenizer;

use crate::adict::*;
use crate::gen::*;
use crate::proj::*;
use crate::rng::Rng;

#[derive(Clone, Debug)]
pub enum Op {
    Reset { w: usize, s: Vec<u32> },
    Tok { w: usize },
    Read { w: usize },
    CInit { w: usize },
    CUpd { w: usize },
    Probs { w: usize },
    /// drop worker w and take a new one from the same tokenizer (a new worker starts empty,
    /// whatever the dropped ones held)
    Renew { w: usize },
    /// reset s1; tokenize; reset s2; tokenize; emit the pair (C12)
    Respace { w: usize, s1: Vec<u32>, s2: Vec<u32> },
}

#[derive(Clone, Debug)]
pub struct SessionIn {
    pub d: ADict,
    pub isp: bool,
    pub mgl: usize,
    pub nw: usize,
    pub ops: Vec<Op>,
    pub lattice: bool,
}

impl Op {
    pub fn to_json(&self) -> Value {
        match self {
            Op::Reset { w, s } => json!({"op": "reset", "w": w, "s": s}),
            Op::Tok { w } => json!({"op": "tok", "w": w}),
            Op::Read { w } => json!({"op": "read", "w": w}),
            Op::CInit { w } => json!({"op": "cinit", "w": w}),
            Op::CUpd { w } => json!({"op": "cupd", "w": w}),
            Op::Probs { w } => json!({"op": "probs", "w": w}),
            Op::Renew { w } => json!({"op": "renew", "w": w}),
            Op::Respace { w, s1, s2 } => json!({"op": "respace", "w": w, "s1": s1, "s2": s2}),
        }
    }
    pub fn from_json(v: &Value) -> Op {
        let w = v["w"].as_u64().unwrap_or(1) as usize;
        let seq = |x: &Value| -> Vec<u32> { x.as_array().map(|a| a.iter().map(|c| c.as_u64().unwrap() as u32).collect()).unwrap_or_default() };
        match v["op"].as_str().unwrap() {
            "reset" => Op::Reset { w, s: seq(&v["s"]) },
            "tok" => Op::Tok { w },
            "read" => Op::Read { w },
            "cinit" => Op::CInit { w },
            "cupd" => Op::CUpd { w },
            "probs" => Op::Probs { w },
            "renew" => Op::Renew { w },
            "respace" => Op::Respace { w, s1: seq(&v["s1"]), s2: seq(&v["s2"]) },
            o => panic!("unknown op {o}"),
        }
    }
}

impl SessionIn {
    pub fn to_json(&self) -> Value {
        json!({"D": self.d.to_json_full(), "O": {"isp": self.isp, "mgl": self.mgl}, "nw": self.nw,
               "lattice": self.lattice,
               "ops": self.ops.iter().map(|o| o.to_json()).collect::<Vec<_>>()})
    }
    pub fn from_json(v: &Value) -> SessionIn {
        SessionIn {
            d: ADict::from_json(&v["D"]),
            isp: v["O"]["isp"].as_bool().unwrap_or(false),
            mgl: v["O"]["mgl"].as_u64().unwrap_or(0) as usize,
            nw: v["nw"].as_u64().unwrap_or(1) as usize,
            lattice: v["lattice"].as_bool().unwrap_or(true),
            ops: v["ops"].as_array().unwrap().iter().map(Op::from_json).collect(),
        }
    }
}

fn panic_msg(e: Box<dyn std::any::Any + Send>) -> String {
    if let Some(s) = e.downcast_ref::<&str>() {
        s.to_string()
    } else if let Some(s) = e.downcast_ref::<String>() {
        s.clone()
    } else {
        "panic".to_string()
    }
}

fn order_json(p: &[(usize, f64)]) -> Value {
    Value::Array(p.iter().map(|(i, _)| json!(i)).collect())
}

/// Executes the operations of one worker set on a tokenizer; `wbase` offsets the worker
/// numbers in the log (used when several threads share one tokenizer).
pub fn run_ops(tok: &Tokenizer, nw: usize, ops: &[Op], lattice: bool, wbase: usize, out: &mut Vec<Value>) {
    run_ops_iso(tok, nw, ops, lattice, wbase, out, false)
}

pub fn run_ops_iso(tok: &Tokenizer, nw: usize, ops: &[Op], lattice: bool, wbase: usize, out: &mut Vec<Value>, iso: bool) {
    let mut workers: Vec<Worker> = (0..nw).map(|_| tok.new_worker()).collect();
    for op in ops {
        crate::progress::beat();
        let r = catch_unwind(AssertUnwindSafe(|| {
            let mut ev: Vec<Value> = vec![];
            match op {
                Op::Reset { w, s } => {
                    let wk = &mut workers[*w - 1];
                    wk.reset_sentence(cps_to_string(s));
                    ev.push(json!({"ev": "reset", "w": w + wbase, "s": s, "n": wk.num_tokens()}));
                }
                Op::Tok { w } => {
                    let wk = &mut workers[*w - 1];
                    wk.tokenize();
                    let mut e = json!({"ev": "tok", "w": w + wbase, "toks": tokens_json(wk)});
                    if lattice && wk.verif_sentence_len() > 0 && wk.verif_sentence_len() <= 64 {
                        e["lat"] = lattice_json(wk);
                    }
                    ev.push(e);
                }
                Op::Read { w } => {
                    let wk = &workers[*w - 1];
                    ev.push(json!({"ev": "read", "w": w + wbase, "toks": tokens_json(wk)}));
                }
                Op::Renew { w } => {
                    // the old worker is dropped first, then a new one is requested
                    let fresh = { let old = std::mem::replace(&mut workers[*w - 1], tok.new_worker()); drop(old); tok.new_worker() };
                    workers[*w - 1] = fresh;
                    let wk = &workers[*w - 1];
                    ev.push(json!({"ev": "renew", "w": w + wbase, "n": wk.num_tokens()}));
                }
                Op::CInit { w } => {
                    workers[*w - 1].init_connid_counter();
                    ev.push(json!({"ev": "cinit", "w": w + wbase}));
                }
                Op::CUpd { w } => {
                    let wk = &mut workers[*w - 1];
                    wk.update_connid_counts();
                    let (lc, rc) = wk.verif_connid_counts().unwrap();
                    ev.push(json!({"ev": "cupd", "w": w + wbase, "lc": lc, "rc": rc}));
                }
                Op::Probs { w } => {
                    let (lp, rp) = workers[*w - 1].compute_connid_probs();
                    ev.push(json!({"ev": "probs", "w": w + wbase, "lo": order_json(&lp), "ro": order_json(&rp)}));
                }
                Op::Respace { w, s1, s2 } => {
                    let wk = &mut workers[*w - 1];
                    let mut pair = vec![];
                    for s in [s1, s2] {
                        wk.reset_sentence(cps_to_string(s));
                        ev.push(json!({"ev": "reset", "w": w + wbase, "s": s, "n": wk.num_tokens()}));
                        wk.tokenize();
                        let t = tokens_json(wk);
                        let mut e = json!({"ev": "tok", "w": w + wbase, "toks": t.clone()});
                        if lattice && wk.verif_sentence_len() > 0 {
                            e["lat"] = lattice_json(wk);
                        }
                        ev.push(e);
                        pair.push(t);
                    }
                    ev.push(json!({"ev": "respace", "w": w + wbase, "s1": s1, "s2": s2, "t1": pair[0], "t2": pair[1], "iso": iso}));
                }
            }
            ev
        }));
        match r {
            Ok(ev) => out.extend(ev),
            Err(e) => {
                out.push(json!({"ev": "panic", "op": op.to_json(), "msg": panic_msg(e)}));
                return; // the worker's state is undefined after a panic
            }
        }
    }
}

/// Builds the tokenizer of a session; logs `session` (or a build failure).
pub fn open_session(si: &SessionIn, out: &mut Vec<Value>) -> Option<Tokenizer> {
    let built = catch_unwind(AssertUnwindSafe(|| si.d.build()));
    let dict = match built {
        Ok(Ok(d)) => d,
        Ok(Err(e)) => {
            out.push(json!({"ev": "build_err", "D": si.d.to_json(), "msg": e.to_string()}));
            return None;
        }
        Err(e) => {
            out.push(json!({"ev": "panic", "op": {"op": "build"}, "D": si.d.to_json(), "msg": panic_msg(e)}));
            return None;
        }
    };
    let mut tok = Tokenizer::new(dict);
    let space = si.d.space_cat();
    // the option setters are plain setters: the LAST call decides.  Half of the sessions (decided by
    // their content) first set the opposite / another value and then the wanted one.
    if (si.ops.len() + si.nw + si.mgl) % 2 == 1 {
        tok = tok.max_grouping_len(if si.mgl == 0 { 2 } else { 0 });
        if space >= 0 {
            tok = match tok.ignore_space(!si.isp) {
                Ok(t) => t,
                Err(_) => {
                    out.push(json!({"ev": "session", "D": si.d.to_json(), "O": {"isp": false, "mgl": si.mgl}, "nw": si.nw}));
                    out.push(json!({"ev": "isp_result", "ok": false, "space": space}));
                    return None;
                }
            };
        }
    }
    let tok = match tok.ignore_space(si.isp) {
        Ok(t) => {
            out.push(json!({"ev": "session", "D": si.d.to_json(), "O": {"isp": si.isp, "mgl": si.mgl}, "nw": si.nw}));
            if si.isp {
                out.push(json!({"ev": "isp_result", "ok": true, "space": space}));
            }
            t
        }
        Err(_) => {
            out.push(json!({"ev": "session", "D": si.d.to_json(), "O": {"isp": false, "mgl": si.mgl}, "nw": si.nw}));
            out.push(json!({"ev": "isp_result", "ok": false, "space": space}));
            return None;
        }
    };
    Some(tok.max_grouping_len(si.mgl))
}

pub fn run_session(si: &SessionIn, out: &mut Vec<Value>) {
    crate::progress::note(&si.to_json().to_string());
    if let Some(tok) = open_session(si, out) {
        run_ops_iso(&tok, si.nw, &si.ops, si.lattice, 0, out, si.d.iso);
    }
}

/// Random history for one session.
pub fn gen_session(rng: &mut Rng, cfg: &GenCfg, nops: usize, max_len: usize, lattice: bool, respace_mode: bool) -> SessionIn {
    let d = gen_dict(rng, cfg);
    let has_space = d.space_cat() >= 0;
    let isp = respace_mode || rng.chance(1, 2); // also asked when SPACE is undefined: must be rejected
    let mgl = *rng.pick(&[0usize, 0, 1, 2, 3, 24]);
    let nw = 1 + rng.below(3);
    let mut ops = vec![];
    let mut pool: Vec<Vec<u32>> = (0..4).map(|_| gen_sentence(rng, &d, max_len)).collect();
    pool.push(vec![]);
    if rng.chance(1, 6) {
        // a sentence of more than 256 characters (counters and offsets wider than one byte), made of a short one repeated
        let base = gen_sentence(rng, &d, max_len.min(6).max(2));
        if !base.is_empty() {
            let mut long = vec![];
            while long.len() < 257 + rng.below(40) {
                long.extend_from_slice(&base);
            }
            pool.push(long);
        }
    }
    let mut has_cnt = vec![false; nw];
    let mut tokd = vec![false; nw];
    while ops.len() < nops {
        let w = 1 + rng.below(nw);
        match if respace_mode && rng.chance(3, 4) { 19 } else { rng.below(20) } {
            0..=6 => {
                let s = if rng.chance(1, 2) { rng.pick(&pool).clone() } else { gen_sentence(rng, &d, max_len) };
                if rng.chance(1, 3) {
                    pool.push(s.clone());
                }
                ops.push(Op::Reset { w, s });
                tokd[w - 1] = false;
                ops.push(Op::Tok { w });
                tokd[w - 1] = true;
            }
            7 | 8 => {
                ops.push(Op::Tok { w });
                tokd[w - 1] = true;
            }
            9 | 10 => ops.push(Op::Read { w }),
            11 => {
                let s = rng.pick(&pool).clone();
                ops.push(Op::Reset { w, s });
                tokd[w - 1] = false;
            }
            12 => {
                ops.push(Op::CInit { w });
                has_cnt[w - 1] = true;
            }
            13..=15 => {
                if !has_cnt[w - 1] {
                    ops.push(Op::CInit { w });
                    has_cnt[w - 1] = true;
                }
                if !tokd[w - 1] {
                    ops.push(Op::Tok { w });
                    tokd[w - 1] = true;
                }
                ops.push(Op::CUpd { w });
            }
            16 => {
                if has_cnt[w - 1] {
                    ops.push(Op::Probs { w });
                }
            }
            17 => {
                // a new worker in place of this one; it is often used WITHOUT a reset first
                ops.push(Op::Renew { w });
                has_cnt[w - 1] = false;
                tokd[w - 1] = false;
                if rng.chance(2, 3) {
                    ops.push(Op::Tok { w });
                    ops.push(Op::Read { w });
                }
            }
            _ => {
                if isp && has_space {
                    let s1 = gen_sentence(rng, &d, max_len);
                    let s2 = respace_with(rng, &s1, &dict_spaces(&d));
                    ops.push(Op::Respace { w, s1, s2 });
                    tokd[w - 1] = true;
                }
            }
        }
    }
    SessionIn { d, isp, mgl, nw, ops, lattice }
}

fn write_lines(path: &str, evs: &[Value]) {
    let mut f = std::io::BufWriter::new(std::fs::File::create(path).expect("create output"));
    for e in evs {
        writeln!(f, "{}", e).unwrap();
    }
}

pub fn record(a: &HashMap<String, String>) -> i32 {
    let seed: u64 = a.get("seed").and_then(|s| s.parse().ok()).unwrap_or(1);
    let n: usize = a.get("sessions").and_then(|s| s.parse().ok()).unwrap_or(20);
    let nops: usize = a.get("ops").and_then(|s| s.parse().ok()).unwrap_or(25);
    let max_len: usize = a.get("maxlen").and_then(|s| s.parse().ok()).unwrap_or(12);
    let kind: u8 = a.get("conn").and_then(|s| s.parse().ok()).unwrap_or(3);
    let threads: usize = a.get("threads").and_then(|s| s.parse().ok()).unwrap_or(0);
    let lattice = a.get("lattice").map(|s| s != "0").unwrap_or(true);
    let out = a.get("out").expect("--out");
    let respace_mode = a.get("respace").map(|s| s == "1").unwrap_or(false);
    let inputs = a.get("inputs");
    let mut rng = Rng::new(seed);
    let max_ids: usize = a.get("maxids").and_then(|s| s.parse().ok()).unwrap_or(4);
    let cfg = GenCfg { conn_kind: kind, space_isolated: respace_mode, max_ids, overfull: !respace_mode, ..Default::default() };
    let mut evs = vec![];
    let mut ins = vec![];
    for _ in 0..n {
        let mut r = rng.fork();
        if threads <= 1 {
            let si = gen_session(&mut r, &cfg, nops, max_len, lattice, respace_mode);
            run_session(&si, &mut evs);
            ins.push(si.to_json());
        } else {
            // k histories over ONE shared tokenizer, one thread each (C04)
            let mut si = gen_session(&mut r, &cfg, nops, max_len, lattice, respace_mode);
            let mut hist = vec![(si.nw, si.ops.clone())];
            for _ in 1..threads {
                let mut other = gen_session(&mut r.fork(), &cfg, nops, max_len, lattice, respace_mode);
                // re-target the other history at this dictionary: keep only its shape, draw sentences anew
                for op in other.ops.iter_mut() {
                    match op {
                        Op::Reset { s, .. } => *s = gen_sentence(&mut r, &si.d, max_len),
                        Op::Respace { s1, s2, .. } => {
                            *s1 = gen_sentence(&mut r, &si.d, max_len);
                            *s2 = respace_with(&mut r, s1, &dict_spaces(&si.d));
                        }
                        _ => {}
                    }
                }
                if !(si.isp && si.d.space_cat() >= 0) {
                    other.ops.retain(|o| !matches!(o, Op::Respace { .. }));
                }
                hist.push((other.nw, other.ops));
            }
            // the same sentences on every thread, so that results can be compared across threads
            let shared: Vec<Vec<u32>> = (0..3).map(|_| gen_sentence(&mut r, &si.d, max_len)).collect();
            for (_, ops) in hist.iter_mut() {
                for s in &shared {
                    ops.push(Op::Reset { w: 1, s: s.clone() });
                    ops.push(Op::Tok { w: 1 });
                }
            }
            si.nw = hist.iter().map(|h| h.0).sum();
            let mut head = vec![];
            if let Some(tok) = open_session(&si, &mut head) {
                evs.extend(head);
                let tok = &tok;
                let mut logs: Vec<Vec<Value>> = vec![];
                std::thread::scope(|sc| {
                    let mut hs = vec![];
                    let mut base = 0;
                    for (i, (nw, ops)) in hist.iter().enumerate() {
                        let b = base;
                        base += nw;
                        hs.push(sc.spawn(move || {
                            let mut log = vec![];
                            // staggered starts
                            for _ in 0..(i * 37 % 5) {
                                std::thread::yield_now();
                            }
                            run_ops(tok, *nw, ops, lattice, b, &mut log);
                            log
                        }));
                    }
                    for h in hs {
                        logs.push(h.join().unwrap());
                    }
                });
                for l in logs {
                    evs.extend(l);
                }
            } else {
                evs.extend(head);
            }
            // flattened input form (ops renumbered) so that the session can be replayed sequentially
            let mut base = 0;
            let mut flat = vec![];
            for (nw, ops) in &hist {
                for op in ops {
                    let mut j = op.to_json();
                    j["w"] = json!(j["w"].as_u64().unwrap() as usize + base);
                    flat.push(Op::from_json(&j));
                }
                base += nw;
            }
            si.ops = flat;
            ins.push(si.to_json());
        }
    }
    write_lines(out, &evs);
    if let Some(p) = inputs {
        write_lines(p, &ins);
    }
    0
}

/// Executes session inputs (one JSON object per line) and writes the trace.
/// With `--group k`, k consecutive inputs (which must share dictionary and options) are
/// executed concurrently, one thread each, over ONE shared tokenizer and logged as one
/// session (worker numbers offset per thread; per-thread order preserved).
pub fn replay(a: &HashMap<String, String>) -> i32 {
    let inp = a.get("in").expect("--in");
    let out = a.get("out").expect("--out");
    let group: usize = a.get("group").and_then(|s| s.parse().ok()).unwrap_or(1);
    let text = std::fs::read_to_string(inp).expect("read input");
    let mut evs = vec![];
    let mut sis = vec![];
    for line in text.lines() {
        if line.trim().is_empty() {
            continue;
        }
        let v: Value = serde_json::from_str(line).expect("json");
        sis.push(SessionIn::from_json(&v));
    }
    if group <= 1 {
        for si in &sis {
            run_session(si, &mut evs);
        }
    } else {
        for chunk in sis.chunks(group) {
            let mut head_si = chunk[0].clone();
            head_si.nw = chunk.iter().map(|c| c.nw).sum();
            let mut head = vec![];
            let tok = open_session(&head_si, &mut head);
            evs.extend(head);
            if let Some(tok) = tok {
                let tok = &tok;
                let mut logs: Vec<Vec<Value>> = vec![];
                std::thread::scope(|sc| {
                    let mut hs = vec![];
                    let mut base = 0;
                    for (i, c) in chunk.iter().enumerate() {
                        let b = base;
                        base += c.nw;
                        hs.push(sc.spawn(move || {
                            let mut log = vec![];
                            for _ in 0..(i * 37 % 5) {
                                std::thread::yield_now();
                            }
                            run_ops(tok, c.nw, &c.ops, c.lattice, b, &mut log);
                            log
                        }));
                    }
                    for h in hs {
                        logs.push(h.join().unwrap());
                    }
                });
                for l in logs {
                    evs.extend(l);
                }
            }
        }
    }
    write_lines(out, &evs);
    0
}

/// Concurrency stress (C04): `threads` workers of ONE tokenizer tokenize the same small set of
/// sentences over and over, each on its own thread and in its own order, for `millis`
/// milliseconds.  Every DISTINCT (sentence, result) pair a thread observes is logged once (the
/// harness only de-duplicates; it does not judge), so a single wrong result among millions of
/// tokenizations ends up in the trace, where the specification rejects it.
pub fn stress(a: &HashMap<String, String>) -> i32 {
    use std::collections::BTreeMap;
    let seed: u64 = a.get("seed").and_then(|s| s.parse().ok()).unwrap_or(1);
    let ndicts: usize = a.get("dicts").and_then(|s| s.parse().ok()).unwrap_or(6);
    let threads: usize = a.get("threads").and_then(|s| s.parse().ok()).unwrap_or(8);
    let millis: u64 = a.get("millis").and_then(|s| s.parse().ok()).unwrap_or(1500);
    let out = a.get("out").expect("--out");
    let mut rng = Rng::new(seed ^ 0x57E5);
    let mut evs: Vec<Value> = vec![];
    let mut iterations: u64 = 0;
    for i in 0..ndicts {
        // 6-11 connection ids per side, so that many different id pairs are looked up concurrently
        let cfg = GenCfg { conn_kind: [1u8, 0, 2, 1, 2, 0][i % 6], max_ids: 12, ..Default::default() };
        let d = gen_dict(&mut rng, &cfg);
        // sentences: concatenations of up to three lexicon words / letters
        let mut atoms: Vec<Vec<u32>> = d.lex.iter().map(|w| w.s.clone()).collect();
        atoms.extend(LETTERS[..3].iter().map(|&c| vec![c]));
        let mut sents: Vec<Vec<u32>> = vec![];
        for _ in 0..40 {
            let k = 1 + rng.below(3);
            let mut s = vec![];
            for _ in 0..k {
                s.extend(rng.pick(&atoms).iter());
            }
            if !sents.contains(&s) {
                sents.push(s);
            }
        }
        let si = SessionIn { d: d.clone(), isp: false, mgl: 0, nw: threads, ops: vec![], lattice: false };
        let mut head = vec![];
        let tok = match open_session(&si, &mut head) {
            Some(t) => t,
            None => continue,
        };
        evs.extend(head);
        let tok = &tok;
        let sents = &sents;
        let deadline = std::time::Instant::now() + std::time::Duration::from_millis(millis);
        let mut results: Vec<(usize, BTreeMap<usize, Vec<String>>, u64, bool)> = vec![];
        std::thread::scope(|sc| {
            let mut hs = vec![];
            for t in 0..threads {
                hs.push(sc.spawn(move || {
                    let mut seen: BTreeMap<usize, Vec<String>> = BTreeMap::new();
                    let mut n = 0u64;
                    let r = catch_unwind(AssertUnwindSafe(|| {
                        let mut w = tok.new_worker();
                        let mut k = t * 7;
                        while std::time::Instant::now() < deadline {
                            for _ in 0..50 {
                                k = (k + 1 + t) % sents.len();
                                w.reset_sentence(cps_to_string(&sents[k]));
                                w.tokenize();
                                let js = tokens_json(&w).to_string();
                                let e = seen.entry(k).or_default();
                                if !e.contains(&js) {
                                    e.push(js);
                                }
                                n += 1;
                            }
                        }
                    }));
                    (t, seen, n, r.is_err())
                }));
            }
            for h in hs {
                results.push(h.join().unwrap());
            }
        });
        for (t, seen, n, panicked) in results {
            iterations += n;
            for (k, outs) in seen {
                for js in outs {
                    evs.push(json!({"ev": "reset", "w": t + 1, "s": sents[k], "n": 0}));
                    evs.push(json!({"ev": "tok", "w": t + 1, "toks": serde_json::from_str::<Value>(&js).unwrap()}));
                }
            }
            if panicked {
                evs.push(json!({"ev": "panic", "op": {"op": "tok", "w": t + 1}, "msg": "panic in a stress thread"}));
            }
        }
    }
    evs.push(json!({"ev": "stress_summary", "iterations": iterations}));
    write_lines(out, &evs);
    0
}

/// Sentences with a run of more than 65535 category-sharing characters (positions and run lengths
/// are not 16-bit quantities).  Far too long to be re-derived by TLC; the harness checks the
/// partition clause of C01 itself (tokens in order, contiguous or separated by spaces only, surfaces
/// and byte ranges equal to the slices of the input) and logs the verdict.
pub fn record_bigsent(a: &HashMap<String, String>) -> i32 {
    let out = a.get("out").expect("--out");
    let lex = "東京,0,0,1,T\n都,0,0,1,M\n";
    let chr = "DEFAULT 0 1 0\nSPACE 0 1 0\nKANJI 0 0 2\n0x0020 SPACE\n0x4E00..0x9FFF KANJI\n";
    let unk = "DEFAULT,0,0,10,d\nSPACE,0,0,10,s\nKANJI,0,0,10,k\n";
    let mat = "1 1\n0 0 0\n";
    let mut evs: Vec<Value> = vec![];
    for (isp, filler, n) in [(false, 'あ', 70000usize), (true, ' ', 65536), (false, ' ', 65537), (true, 'あ', 65536)] {
        let text: String = format!("東京{}都", std::iter::repeat(filler).take(n).collect::<String>());
        let r = catch_unwind(AssertUnwindSafe(|| {
            let dict = vibrato::SystemDictionaryBuilder::from_readers(lex.as_bytes(), mat.as_bytes(), chr.as_bytes(), unk.as_bytes()).expect("dictionary");
            let tok = Tokenizer::new(dict).ignore_space(isp).expect("SPACE is defined");
            let mut w = tok.new_worker();
            w.reset_sentence(&text);
            w.tokenize();
            let chars: Vec<char> = text.chars().collect();
            let mut ok = true;
            let (mut pos, mut bpos) = (0usize, 0usize);
            for i in 0..w.num_tokens() {
                let t = w.token(i);
                let (rc, rb) = (t.range_char(), t.range_byte());
                // a gap is allowed only under ignore_space and only over spaces
                while pos < rc.start {
                    ok &= isp && chars[pos] == ' ';
                    bpos += chars[pos].len_utf8();
                    pos += 1;
                }
                ok &= rc.start == pos && rc.end > rc.start && rc.end <= chars.len() && rb.start == bpos;
                let surf: String = chars[rc.start..rc.end.min(chars.len())].iter().collect();
                ok &= t.surface() == surf && rb.end == rb.start + surf.len();
                pos = rc.end;
                bpos = rb.end;
            }
            while pos < chars.len() {
                ok &= isp && chars[pos] == ' ';
                pos += 1;
            }
            (w.num_tokens(), ok)
        }));
        evs.push(match r {
            Ok((ntok, ok)) => json!({"ev": "bigsent", "isp": isp, "filler": filler as u32, "n": n, "panic": false, "ntok": ntok, "partition_ok": ok}),
            Err(_) => json!({"ev": "bigsent", "isp": isp, "filler": filler as u32, "n": n, "panic": true, "ntok": 0, "partition_ok": false}),
        });
    }
    let mut f = std::io::BufWriter::new(std::fs::File::create(out).expect("create"));
    for e in &evs {
        writeln!(f, "{}", e).unwrap();
    }
    0
}

/// C04 over a LONG history: one worker serves a few sentences and then the same sentence more than
/// 65536 times (a server that keeps one worker per thread does this within hours).  Every result is
/// compared with what a fresh worker gives; the event carries the verdict, the first index at which
/// they differ and the two results there.
pub fn record_longlife(a: &HashMap<String, String>) -> i32 {
    let seed: u64 = a.get("seed").and_then(|s| s.parse().ok()).unwrap_or(1);
    let n: usize = a.get("n").and_then(|s| s.parse().ok()).unwrap_or(12);
    let reps: usize = a.get("reps").and_then(|s| s.parse().ok()).unwrap_or(65600);
    let out = a.get("out").expect("--out");
    let mut rng = Rng::new(seed ^ 0x1064);
    let mut evs: Vec<Value> = vec![];
    let mut done = 0;
    while done < n {
        let cfg = GenCfg { conn_kind: (done % 3) as u8, ..Default::default() };
        let d = gen_dict(&mut rng, &cfg);
        let dict = match catch_unwind(AssertUnwindSafe(|| d.build())) {
            Ok(Ok(x)) => x,
            _ => continue,
        };
        let isp = d.space_cat() >= 0 && rng.chance(1, 3);
        let mgl = if rng.chance(1, 2) { 0 } else { 1 + rng.below(3) };
        let tok = match Tokenizer::new(dict).ignore_space(isp) {
            Ok(t) => t.max_grouping_len(mgl),
            Err(_) => continue,
        };
        let prevs: Vec<Vec<u32>> = (0..3).map(|_| gen_sentence(&mut rng, &d, 8)).collect();
        // the repeated sentence: a variant of one of the earlier ones (same length, other first
        // character) half of the time, so that the two lattices differ in a few boundaries only
        let mut s = if rng.chance(1, 2) && !prevs[0].is_empty() { prevs[0].clone() } else { gen_sentence(&mut rng, &d, 8) };
        if !s.is_empty() && rng.chance(1, 2) {
            s[0] = *rng.pick(LETTERS);
        }
        crate::progress::note(&json!({"longlife": done, "D": d.to_json(), "s": s, "prevs": prevs}).to_string());
        let r = catch_unwind(AssertUnwindSafe(|| {
            let text = cps_to_string(&s);
            let mut fresh = tok.new_worker();
            fresh.reset_sentence(&text);
            fresh.tokenize();
            let want = tokens_json(&fresh);
            let mut w = tok.new_worker();
            for p in &prevs {
                w.reset_sentence(cps_to_string(p));
                w.tokenize();
            }
            let (mut bad, mut first, mut got_first) = (0usize, -1i64, Value::Null);
            for i in 0..reps {
                w.reset_sentence(&text);
                w.tokenize();
                // cheap comparison first (token count and total cost), the full one when they agree
                let same = w.num_tokens() == fresh.num_tokens()
                    && (0..w.num_tokens()).all(|k| {
                        let (x, y) = (w.token(k), fresh.token(k));
                        x.range_char() == y.range_char() && x.total_cost() == y.total_cost() && x.word_idx() == y.word_idx()
                    });
                if !same {
                    bad += 1;
                    if first < 0 {
                        first = i as i64;
                        got_first = tokens_json(&w);
                    }
                }
                if i % 8192 == 0 {
                    crate::progress::beat();
                }
            }
            (bad, first, want, got_first)
        }));
        evs.push(match r {
            Ok((bad, first, want, got)) => json!({"ev": "longlife", "reps": reps, "panic": false, "mismatches": bad, "first": first,
                                                   "s": s, "prevs": prevs, "fresh": want, "got": if first < 0 { json!([]) } else { got }}),
            Err(_) => json!({"ev": "longlife", "reps": reps, "panic": true, "mismatches": 0, "first": -1, "s": s, "prevs": prevs, "fresh": [], "got": []}),
        });
        done += 1;
    }
    write_lines(out, &evs);
    0
}
