//! Dictionary lifecycle sessions (C05 C06 C08): build, load/replace/clear a user lexicon,
//! remap connection ids, write+read, each followed by a projection of the real dictionary
//! and by tokenization probes.  The abstract state is evolved by the specification
//! (Trace_Dict.tla); the harness only applies the operations and logs what it sees.
use std::collections::HashMap;
use std::io::Write;
use std::panic::{catch_unwind, AssertUnwindSafe};

use serde_json::{json, Value};
use vibrato::{Dictionary, Tokenizer};

use crate::adict::*;
use crate::gen::*;
use crate::proj::*;
use crate::rng::Rng;
use crate::sessions::{run_ops, Op};

#[derive(Clone, Debug)]
pub enum DStep {
    User(Option<Vec<AWord>>),
    Map { ll: Vec<u32>, rl: Vec<u32> },
    WriteRead,
    /// the reorder tool followed by the map tool: connection-id statistics over training
    /// sentences, then the dictionary is remapped with the two orders they yield
    Reorder { sents: Vec<Vec<u32>> },
}

#[derive(Clone, Debug)]
pub struct DictSession {
    pub d: ADict,
    pub isp: bool,
    pub mgl: usize,
    pub steps: Vec<DStep>,
    pub probes: Vec<Vec<u32>>,
}

fn words_json(ws: &[AWord]) -> Value {
    Value::Array(ws.iter().map(|w| json!({"s": w.s, "l": w.l, "r": w.r, "c": w.c, "f": w.f})).collect())
}

impl DStep {
    pub fn to_json(&self) -> Value {
        match self {
            DStep::User(Some(rows)) => json!({"step": "user", "rows": words_json(rows)}),
            DStep::User(None) => json!({"step": "user", "clear": true}),
            DStep::Map { ll, rl } => json!({"step": "map", "ll": ll, "rl": rl}),
            DStep::WriteRead => json!({"step": "wr"}),
            DStep::Reorder { sents } => json!({"step": "reorder", "sents": sents}),
        }
    }
    pub fn from_json(v: &Value) -> DStep {
        let seq = |x: &Value| -> Vec<u32> { x.as_array().map(|a| a.iter().map(|c| c.as_u64().unwrap() as u32).collect()).unwrap_or_default() };
        match v["step"].as_str().unwrap() {
            "user" => {
                if v["rows"].is_null() || v["clear"].as_bool().unwrap_or(false) {
                    DStep::User(None)
                } else {
                    DStep::User(Some(v["rows"].as_array().unwrap().iter().map(|w| AWord {
                        s: seq(&w["s"]), l: w["l"].as_u64().unwrap() as u32, r: w["r"].as_u64().unwrap() as u32,
                        c: w["c"].as_i64().unwrap() as i32, f: w["f"].as_str().unwrap_or("").to_string(),
                    }).collect()))
                }
            }
            "map" => DStep::Map { ll: seq(&v["ll"]), rl: seq(&v["rl"]) },
            "reorder" => DStep::Reorder { sents: v["sents"].as_array().unwrap().iter().map(seq).collect() },
            _ => DStep::WriteRead,
        }
    }
}

impl DictSession {
    pub fn to_json(&self) -> Value {
        json!({"D": self.d.to_json_full(), "O": {"isp": self.isp, "mgl": self.mgl},
               "steps": self.steps.iter().map(|s| s.to_json()).collect::<Vec<_>>(), "probes": self.probes})
    }
    pub fn from_json(v: &Value) -> DictSession {
        DictSession {
            d: ADict::from_json(&v["D"]),
            isp: v["O"]["isp"].as_bool().unwrap_or(false),
            mgl: v["O"]["mgl"].as_u64().unwrap_or(0) as usize,
            steps: v["steps"].as_array().map(|a| a.iter().map(DStep::from_json).collect()).unwrap_or_default(),
            probes: v["probes"].as_array().map(|a| a.iter().map(|s| s.as_array().unwrap().iter().map(|c| c.as_u64().unwrap() as u32).collect()).collect()).unwrap_or_default(),
        }
    }
}

pub fn fnv31(bytes: &[u8]) -> u32 {
    let mut h: u32 = 0x811c9dc5;
    for &b in bytes {
        h ^= b as u32;
        h = h.wrapping_mul(0x01000193);
    }
    h & 0x7fff_ffff
}

/// What a dictionary shows of itself through hooks H2/H8 and `word_feature`.
pub fn project(dict: &Dictionary) -> Value {
    let words = |lt: u8| -> Value {
        let n = dict.verif_num_words(lt);
        Value::Array((0..n).map(|i| {
            let idx = vibrato::verif::word_idx(lt, i as u32);
            let (l, r, c) = dict.verif_word_param(idx);
            json!({"l": l, "r": r, "c": c, "f": dict.word_feature(idx)})
        }).collect())
    };
    let nr = dict.verif_num_right();
    let nl = dict.verif_num_left();
    let mut mat = Vec::with_capacity(nr * nl);
    for l in 0..nl {
        for r in 0..nr {
            mat.push(dict.verif_conn_cost(r as u16, l as u16));
        }
    }
    let unk: Vec<Value> = dict.verif_unk_entries().iter().map(|(cat, l, r, c, f)| json!({"cat": cat, "l": l, "r": r, "c": c, "f": f})).collect();
    json!({"lex": words(0), "user": words(1), "unk": unk, "nr": nr, "nl": nl, "mat": mat})
}

/// The characters whose category information every projection reports (BMP only: astral
/// characters are the subject of known finding F19).  The same list is `ProbeChars` in VDictOps.
pub const PROBE_CHARS: &[u32] = &[0x0, 0x1F, 0x20, 0x61, 0x62, 0x63, 0x64, 0x7A, 0xE9, 0x3000, 0x3042, 0x4EAC, 0x4EAD, 0x6771, 0xFFDF, 0xFFF0, 0xFFFE, 0xFFFF];

pub fn project_chars(dict: &Dictionary) -> Value {
    Value::Array(PROBE_CHARS.iter().map(|&cp| {
        let (mask, base, invoke, group, length) = dict.verif_char_info(char::from_u32(cp).unwrap());
        let cats: Vec<u32> = (0..32).filter(|b| mask & (1u32 << b) != 0).collect();
        json!({"ch": cp, "cats": cats, "base": base, "invoke": invoke as u8, "group": group as u8, "length": length})
    }).collect())
}

struct CountingWriter {
    buf: Vec<u8>,
}
impl Write for CountingWriter {
    fn write(&mut self, b: &[u8]) -> std::io::Result<usize> {
        self.buf.extend_from_slice(b);
        Ok(b.len())
    }
    fn flush(&mut self) -> std::io::Result<()> {
        Ok(())
    }
}

/// A writer that accepts at most a few bytes per call (short writes, as a pipe or a socket may do).
struct ShortWriter {
    buf: Vec<u8>,
    max: usize,
}
impl Write for ShortWriter {
    fn write(&mut self, b: &[u8]) -> std::io::Result<usize> {
        let n = b.len().min(self.max);
        self.buf.extend_from_slice(&b[..n]);
        Ok(n)
    }
    fn flush(&mut self) -> std::io::Result<()> {
        Ok(())
    }
}

/// The image written through a writer that takes at most `max` bytes per call, and the count reported.
pub fn write_bytes_short(dict: &Dictionary, max: usize) -> (usize, Vec<u8>) {
    let mut w = ShortWriter { buf: vec![], max };
    let ret = dict.write(&mut w).expect("write to memory");
    (ret, w.buf)
}

pub fn write_bytes(dict: &Dictionary) -> (usize, Vec<u8>) {
    let mut w = CountingWriter { buf: vec![] };
    let ret = dict.write(&mut w).expect("write to memory");
    (ret, w.buf)
}

/// Applies one step; `Err(())` means the call returned an error (the dictionary value is
/// consumed by vibrato's API in that case and must be rebuilt by the caller).
fn apply(dict: Dictionary, step: &DStep, log: &mut Vec<Value>, quiet: bool) -> Result<Dictionary, ()> {
    match step {
        DStep::User(rows) => {
            let r = match rows {
                Some(rows) if rows.is_empty() => dict.reset_user_lexicon_from_reader(Some("\n\n".as_bytes())),   // blank lines only
                Some(rows) => dict.reset_user_lexicon_from_reader(Some(ADict::render_lex(rows).as_bytes())),
                None => dict.reset_user_lexicon_from_reader(None::<&[u8]>),
            };
            if !quiet {
                match rows {
                    Some(rs) => log.push(json!({"ev": "user", "clear": false, "rows": words_json(rs), "ok": r.is_ok()})),
                    None => log.push(json!({"ev": "user", "clear": true, "ok": r.is_ok()})),
                }
            }
            r.map_err(|_| ())
        }
        DStep::Map { ll, rl } => {
            // the API takes any IntoIterator: every other call hands over iterators without an exact
            // size (a filter, as when the ids are parsed lazily from the lines of a file)
            static CALLS: std::sync::atomic::AtomicUsize = std::sync::atomic::AtomicUsize::new(0);
            let lazy = CALLS.fetch_add(1, std::sync::atomic::Ordering::Relaxed) % 2 == 1;
            let r = if lazy {
                dict.map_connection_ids_from_iter(ll.iter().map(|&x| x as u16).filter(|_| true), rl.iter().map(|&x| x as u16).filter(|_| true))
            } else {
                dict.map_connection_ids_from_iter(ll.iter().map(|&x| x as u16), rl.iter().map(|&x| x as u16))
            };
            if !quiet {
                log.push(json!({"ev": "map", "ll": ll, "rl": rl, "ok": r.is_ok()}));
            }
            r.map_err(|_| ())
        }
        DStep::Reorder { .. } => unreachable!("translated to Map by the caller"),
        DStep::WriteRead => {
            let (ret, bytes) = write_bytes(&dict);
            let r = Dictionary::read(bytes.as_slice());
            let (ok, h2, len2) = match &r {
                Ok(d2) => {
                    let (_, b2) = write_bytes(d2);
                    (true, fnv31(&b2), b2.len())
                }
                Err(_) => (false, 0, 0),
            };
            // the same image through a writer that takes at most 5 bytes per call
            let (sret, sbytes) = write_bytes_short(&dict, 5);
            if !quiet {
                log.push(json!({"ev": "wr", "ret": ret, "emitted": bytes.len(), "h1": fnv31(&bytes), "h2": h2, "len2": len2, "ok": ok,
                                "short_ok": sbytes == bytes && sret == sbytes.len()}));
            }
            r.map_err(|_| ())
        }
    }
}

/// Rebuilds the dictionary by replaying the steps that succeeded.
fn materialize(d: &ADict, steps: &[DStep], oks: &[bool]) -> Dictionary {
    materialize_from(d.build_system().expect("rebuild"), steps, oks)
}

fn materialize_from(mut dict: Dictionary, steps: &[DStep], oks: &[bool]) -> Dictionary {
    let mut sink = vec![];
    for (s, ok) in steps.iter().zip(oks) {
        if *ok {
            dict = apply(dict, s, &mut sink, true).expect("replayed step");
        }
    }
    dict
}

fn probe(dict: Dictionary, ds: &DictSession, out: &mut Vec<Value>) -> Vec<Value> {
    // tokens of every probe sentence, through the public API
    let tok = Tokenizer::new(dict);
    let tok = match tok.ignore_space(ds.isp) {
        Ok(t) => t,
        Err(_) => return vec![],
    };
    let tok = tok.max_grouping_len(ds.mgl);
    let mut ops = vec![];
    for s in &ds.probes {
        ops.push(Op::Reset { w: 1, s: s.clone() });
        ops.push(Op::Tok { w: 1 });
    }
    let start = out.len();
    run_ops(&tok, 1, &ops, true, 0, out);
    out[start..].iter().filter(|e| e["ev"] == "tok").map(|e| e["toks"].clone()).collect()
}

/// What `reorder` does: statistics over the training sentences, then the two id orders.
fn reorder(dict: Dictionary, ds: &DictSession, sents: &[Vec<u32>], out: &mut Vec<Value>) -> (Vec<u32>, Vec<u32>) {
    let tok = Tokenizer::new(dict);
    let tok = match tok.ignore_space(ds.isp) {
        Ok(t) => t,
        Err(_) => return (vec![], vec![]),
    };
    let tok = tok.max_grouping_len(ds.mgl);
    let mut ops = vec![Op::CInit { w: 2 }];
    for s in sents {
        ops.push(Op::Reset { w: 2, s: s.clone() });
        ops.push(Op::Tok { w: 2 });
        ops.push(Op::CUpd { w: 2 });
    }
    ops.push(Op::Probs { w: 2 });
    let start = out.len();
    run_ops(&tok, 2, &ops, false, 0, out);
    for e in out[start..].iter() {
        if e["ev"] == "probs" {
            let seq = |x: &Value| -> Vec<u32> { x.as_array().map(|a| a.iter().map(|c| c.as_u64().unwrap() as u32).collect()).unwrap_or_default() };
            return (seq(&e["lo"]), seq(&e["ro"]));
        }
    }
    (vec![], vec![])
}

pub fn run_dict_session(ds: &DictSession, out: &mut Vec<Value>) {
    let r = catch_unwind(AssertUnwindSafe(|| {
        let mut log = vec![];
        let mut d0 = ds.d.clone();
        d0.user = None;
        let built = d0.build_system();
        let mut dict = match built {
            Ok(d) => d,
            Err(e) => {
                log.push(json!({"ev": "build_err", "D": d0.to_json(), "msg": e.to_string()}));
                return log;
            }
        };
        let isp_ok = !ds.isp || ds.d.space_cat() >= 0;
        log.push(json!({"ev": "session", "D": d0.to_json(), "O": {"isp": ds.isp && isp_ok, "mgl": ds.mgl}, "nw": 1}));
        log.push(json!({"ev": "proj", "p": project(&dict), "chars": project_chars(&dict)}));
        let mut oks: Vec<bool> = vec![];
        let mut prev = probe(materialize(&d0, &ds.steps[..0], &oks), ds, &mut log);
        let mut steps: Vec<DStep> = ds.steps.clone();
        for i in 0..steps.len() {
            if let DStep::Reorder { sents } = &steps[i] {
                // the reorder tool on a copy of the current dictionary (worker 2 in the log)
                let copy = materialize(&d0, &steps[..i], &oks);
                let (lo, ro) = reorder(copy, ds, sents, &mut log);
                steps[i] = DStep::Map { ll: lo, rl: ro };
            }
            let step = &steps[i];
            match apply(dict, step, &mut log, false) {
                Ok(d) => {
                    dict = d;
                    oks.push(true);
                }
                Err(()) => {
                    oks.push(false);
                    dict = materialize(&d0, &steps[..=i], &oks);
                }
            }
            log.push(json!({"ev": "proj", "p": project(&dict), "chars": project_chars(&dict)}));
            let cur = probe(materialize(&d0, &steps[..=i], &oks), ds, &mut log);
            if let (DStep::Map { ll, rl }, true) = (step, oks[i]) {
                for (k, s) in ds.probes.iter().enumerate() {
                    if k < prev.len() && k < cur.len() {
                        log.push(json!({"ev": "maprel", "s": s, "ll": ll, "rl": rl, "before": prev[k], "after": cur[k]}));
                    }
                }
            }
            prev = cur;
        }
        log
    }));
    match r {
        Ok(log) => out.extend(log),
        Err(e) => {
            let msg = if let Some(s) = e.downcast_ref::<String>() { s.clone() } else if let Some(s) = e.downcast_ref::<&str>() { s.to_string() } else { "panic".into() };
            out.push(json!({"ev": "panic", "op": {"op": "dictops"}, "msg": msg, "input": ds.to_json()}));
        }
    }
}

/// Like `run_dict_session`, but the dictionary is LOADED from an image (written by this or
/// another build) instead of being built; the image written back must have the given hash.
pub fn run_loaded_session(ds: &DictSession, image: &[u8], hash: u32, out: &mut Vec<Value>) {
    let r = catch_unwind(AssertUnwindSafe(|| {
        let mut log = vec![];
        let load = || Dictionary::read(image);
        let mut dict = match load() {
            Ok(d) => d,
            Err(e) => {
                log.push(json!({"ev": "load_err", "msg": e.to_string()}));
                return log;
            }
        };
        let mut d0 = ds.d.clone();
        d0.user = None;
        log.push(json!({"ev": "session", "D": d0.to_json(), "O": {"isp": false, "mgl": ds.mgl}, "nw": 1}));
        let (ret, bytes) = write_bytes(&dict);
        log.push(json!({"ev": "wr", "ret": ret, "emitted": bytes.len(), "h1": hash, "h2": fnv31(&bytes), "len2": image.len(), "ok": true}));
        log.push(json!({"ev": "proj", "p": project(&dict), "chars": project_chars(&dict)}));
        let mut oks: Vec<bool> = vec![];
        probe(load().unwrap(), ds, &mut log);
        for (i, step) in ds.steps.iter().enumerate() {
            match apply(dict, step, &mut log, false) {
                Ok(d) => {
                    dict = d;
                    oks.push(true);
                }
                Err(()) => {
                    oks.push(false);
                    dict = materialize_from(load().unwrap(), &ds.steps[..=i], &oks);
                }
            }
            log.push(json!({"ev": "proj", "p": project(&dict), "chars": project_chars(&dict)}));
            probe(materialize_from(load().unwrap(), &ds.steps[..=i], &oks), ds, &mut log);
        }
        log
    }));
    match r {
        Ok(log) => out.extend(log),
        Err(_) => out.push(json!({"ev": "panic", "op": {"op": "dictops"}, "input": ds.to_json()})),
    }
}

pub fn gen_perm_list(rng: &mut Rng, n: usize) -> Vec<u32> {
    let mut v: Vec<u32> = (1..n as u32).collect();
    rng.shuffle(&mut v);
    v
}

pub fn gen_bad_list(rng: &mut Rng, n: usize) -> Vec<u32> {
    let mut v = gen_perm_list(rng, n);
    match rng.below(5) {
        0 => v.push(n as u32),                       // too long / out of range
        1 => {
            v.pop();                                 // omits an id (short)
        }
        2 => v.insert(0, 0),                         // mentions 0
        3 if !v.is_empty() => {
            let x = v[0];
            let k = v.len() - 1;
            v[k] = x;                                // duplicate (when n > 2), else unchanged handled below
        }
        _ => v.push(1),                              // duplicate + too long
    }
    v
}

pub fn gen_user_rows(rng: &mut Rng, d: &ADict, bad: bool) -> Vec<AWord> {
    let (nl, nr) = (d.nl(), d.nr());
    let n = 1 + rng.below(4);
    let mut rows: Vec<AWord> = (0..n).map(|i| {
        let len = 1 + rng.below(3);
        AWord {
            s: (0..len).map(|_| *rng.pick(LETTERS)).collect(),
            l: rng.below(nl) as u32, r: rng.below(nr) as u32,
            c: *rng.pick(&[-32768, -5, 0, 3, 40, 32767]),
            // one user row in six has a line feed inside a quoted feature cell (CSV allows it; the stored
            // feature keeps it verbatim)
            f: if rng.chance(1, 6) { format!("U{},\"x\ny{}\"", i, i) } else { format!("U{},x\"{}\"", i, i) },
        }
    }).collect();
    if !d.lex.is_empty() && rng.chance(2, 3) {
        // homograph of a system word; longer / shorter overlaps
        let base = rng.pick(&d.lex).clone();
        rows.push(AWord { f: "Uh".into(), c: rng.range(-40, 40) as i32, l: rng.below(nl) as u32, r: rng.below(nr) as u32, ..base.clone() });
        let mut longer = base.clone();
        longer.s.push(*rng.pick(LETTERS));
        longer.f = "Ul".into();
        longer.l = rng.below(nl) as u32;
        longer.r = rng.below(nr) as u32;
        rows.push(longer);
    }
    if bad {
        let k = rng.below(rows.len());
        if rng.chance(1, 2) {
            rows[k].l = (nl + rng.below(2)) as u32;
        } else {
            rows[k].r = (nr + rng.below(2)) as u32;
        }
    }
    rows
}

pub fn gen_dict_session(rng: &mut Rng, kind: u8, max_len: usize, nsteps: usize, reorder_mode: bool) -> DictSession {
    let cfg = GenCfg { conn_kind: kind, allow_user: false, ..Default::default() };
    let mut d = gen_dict(rng, &cfg);
    if rng.chance(1, 3) && !d.lex.is_empty() {
        let k = rng.below(d.lex.len());
        d.lex[k].f.push_str(",\"l\nf\"");
    }
    if rng.chance(1, 25) && !d.lex.is_empty() {
        // a surface with 254 / 255 / 256 homographs (counted lists in the image: the one-byte boundary)
        let base = d.lex[0].clone();
        let n = 253 + rng.below(3);
        for k in 0..n {
            let mut w = base.clone();
            w.f = format!("hg{k}");
            w.c = (k % 11) as i32;
            d.lex.push(w);
        }
    }
    let isp = d.space_cat() >= 0 && rng.chance(1, 3);
    let mgl = *rng.pick(&[0usize, 0, 2]);
    let mut steps = vec![];
    let n = 1 + rng.below(nsteps);
    for _ in 0..n {
        if reorder_mode && rng.chance(1, 2) {
            let k = rng.below(5);
            let mut sents: Vec<Vec<u32>> = (0..k).map(|_| gen_sentence(rng, &d, max_len)).collect();
            if rng.chance(1, 3) {
                sents.insert(0, vec![]);            // an empty first line
            }
            if rng.chance(1, 3) && !sents.is_empty() {
                let s = sents[0].clone();
                sents.push(s);                      // a repeated line
            }
            steps.push(DStep::Reorder { sents });
            continue;
        }
        steps.push(match rng.below(10) {
            0..=2 => DStep::User(Some(gen_user_rows(rng, &d, false))),
            3 => DStep::User(Some(gen_user_rows(rng, &d, true))),
            4 => if rng.chance(1, 2) { DStep::User(Some(vec![])) } else { DStep::User(None) },   // a CSV without rows / clear
            5..=6 => DStep::Map { ll: gen_perm_list(rng, d.nl()), rl: gen_perm_list(rng, d.nr()) },
            7 => {
                if d.nl() != d.nr() && rng.chance(1, 3) {
                    // each list is a valid permutation - of the OTHER side's ids
                    DStep::Map { ll: gen_perm_list(rng, d.nr()), rl: gen_perm_list(rng, d.nl()) }
                } else if rng.chance(1, 2) {
                    DStep::Map { ll: gen_bad_list(rng, d.nl()), rl: gen_perm_list(rng, d.nr()) }
                } else {
                    DStep::Map { ll: gen_perm_list(rng, d.nl()), rl: gen_bad_list(rng, d.nr()) }
                }
            }
            _ => DStep::WriteRead,
        });
    }
    // probes: sentences over the lexicon and the user rows
    let mut dd = d.clone();
    let mut urows = vec![];
    for s in &steps {
        if let DStep::User(Some(r)) = s {
            urows.extend(r.clone());
        }
    }
    dd.user = if urows.is_empty() { None } else { Some(urows) };
    let probes = (0..3).map(|_| gen_sentence(rng, &dd, max_len)).collect();
    DictSession { d, isp, mgl, steps, probes }
}

fn write_lines(path: &str, evs: &[Value]) {
    let mut f = std::io::BufWriter::new(std::fs::File::create(path).expect("create output"));
    for e in evs {
        writeln!(f, "{}", e).unwrap();
    }
}

pub fn record(a: &HashMap<String, String>) -> i32 {
    let seed: u64 = a.get("seed").and_then(|s| s.parse().ok()).unwrap_or(1);
    let n: usize = a.get("sessions").and_then(|s| s.parse().ok()).unwrap_or(20);
    let kind: u8 = a.get("conn").and_then(|s| s.parse().ok()).unwrap_or(3);
    let max_len: usize = a.get("maxlen").and_then(|s| s.parse().ok()).unwrap_or(8);
    let nsteps: usize = a.get("steps").and_then(|s| s.parse().ok()).unwrap_or(4);
    let out = a.get("out").expect("--out");
    let reorder_mode = a.get("reorder").map(|s| s == "1").unwrap_or(false);
    let mut rng = Rng::new(seed ^ 0xD1C7);
    let mut evs = vec![];
    let mut ins = vec![];
    for i in 0..n {
        let mut r = rng.fork();
        let mut ds = gen_dict_session(&mut r, kind, max_len, nsteps, reorder_mode);
        if i == 3 && !ds.d.lex.is_empty() {
            // one session per run: a surface with EXACTLY 255 homographs, written and read back first
            let base = ds.d.lex[0].clone();
            let have = ds.d.lex.iter().filter(|w| w.s == base.s).count();
            for k in have..255 {
                let mut w = base.clone();
                w.f = format!("hx{k}");
                w.c = (k % 13) as i32;
                ds.d.lex.push(w);
            }
            ds.steps.insert(0, DStep::WriteRead);
        }
        run_dict_session(&ds, &mut evs);
        ins.push(ds.to_json());
    }
    write_lines(out, &evs);
    if let Some(p) = a.get("inputs") {
        write_lines(p, &ins);
    }
    0
}

pub fn replay(a: &HashMap<String, String>) -> i32 {
    let inp = a.get("in").expect("--in");
    let out = a.get("out").expect("--out");
    let text = std::fs::read_to_string(inp).expect("read input");
    let mut evs = vec![];
    for line in text.lines() {
        if line.trim().is_empty() {
            continue;
        }
        let v: Value = serde_json::from_str(line).expect("json");
        run_dict_session(&DictSession::from_json(&v), &mut evs);
    }
    write_lines(out, &evs);
    0
}
