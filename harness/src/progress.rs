//! Where the process is, for the driver: a side file rewritten before every call into the
//! code under test, and a watchdog.  A process that DIES inside the code under test (abort on
//! a failed allocation, stack overflow, a signal) or that never comes back from a call
//! cannot be observed through catch_unwind; the driver reads this file to attribute the
//! death to its input.  Enabled only by `--progress <file>`.
use std::fs::File;
use std::os::unix::fs::FileExt;
use std::sync::atomic::{AtomicU64, Ordering};
use std::sync::Mutex;

static FILE: Mutex<Option<File>> = Mutex::new(None);
static BEAT: AtomicU64 = AtomicU64::new(0);

/// Exit status of a process stopped by the watchdog.
pub const HANG_EXIT: i32 = 98;

pub fn init(path: Option<&String>) {
    let Some(p) = path else { return };
    *FILE.lock().unwrap() = Some(File::create(p).expect("progress file"));
    let limit: u64 = std::env::var("VH_HANG_SECS").ok().and_then(|s| s.parse().ok()).unwrap_or(300);
    std::thread::spawn(move || {
        let mut last = BEAT.load(Ordering::Relaxed);
        let mut idle = 0u64;
        loop {
            std::thread::sleep(std::time::Duration::from_secs(1));
            let now = BEAT.load(Ordering::Relaxed);
            if now != last {
                last = now;
                idle = 0;
            } else {
                idle += 1;
                if idle >= limit {
                    if let Some(f) = FILE.lock().unwrap().as_ref() {
                        let len = f.metadata().map(|m| m.len()).unwrap_or(0);
                        let _ = f.write_at(format!("\nHANG: no call returned for {limit} s\n").as_bytes(), len);
                    }
                    std::process::exit(HANG_EXIT);
                }
            }
        }
    });
}

/// Replaces the content of the progress file (and counts as a heart beat).
pub fn note(what: &str) {
    BEAT.fetch_add(1, Ordering::Relaxed);
    if let Some(f) = FILE.lock().unwrap().as_ref() {
        let _ = f.set_len(0);
        let _ = f.write_at(what.as_bytes(), 0);
    }
}

/// A call into the code under test is about to start / has returned.
pub fn beat() {
    BEAT.fetch_add(1, Ordering::Relaxed);
}

// ------------------------------------------------------------------ command-line tools under test

static TOOL_TIMED_OUT: Mutex<Option<String>> = Mutex::new(None);

/// Exit status of the harness when a command-line tool under test did not terminate.
pub const TOOL_HANG_EXIT: i32 = 97;

pub fn tool_timed_out() -> Option<String> {
    TOOL_TIMED_OUT.lock().unwrap().clone()
}

/// Runs a tool of the code under test with a time limit (VH_TOOL_SECS, default 120 s): standard
/// output / error are collected by reader threads, the child is killed at the deadline and the
/// incident is remembered (the harness then exits with TOOL_HANG_EXIT).
/// Returns (exited successfully, stdout, stderr).
pub fn run_tool(mut cmd: std::process::Command, stdin: Option<&str>) -> (bool, String, String) {
    use std::io::{Read, Write};
    use std::process::Stdio;
    let limit: u64 = std::env::var("VH_TOOL_SECS").ok().and_then(|s| s.parse().ok()).unwrap_or(120);
    let what = format!("{:?}", cmd);
    cmd.stdin(if stdin.is_some() { Stdio::piped() } else { Stdio::null() }).stdout(Stdio::piped()).stderr(Stdio::piped());
    let mut child = match cmd.spawn() {
        Ok(c) => c,
        Err(_) => return (false, String::new(), String::new()),
    };
    if let Some(text) = stdin {
        let mut si = child.stdin.take().unwrap();
        let text = text.to_string();
        std::thread::spawn(move || {
            let _ = si.write_all(text.as_bytes());
        });
    }
    let mut so = child.stdout.take().unwrap();
    let mut se = child.stderr.take().unwrap();
    let t_out = std::thread::spawn(move || {
        let mut v = vec![];
        let _ = so.read_to_end(&mut v);
        v
    });
    let t_err = std::thread::spawn(move || {
        let mut v = vec![];
        let _ = se.read_to_end(&mut v);
        v
    });
    let deadline = std::time::Instant::now() + std::time::Duration::from_secs(limit);
    let status = loop {
        match child.try_wait() {
            Ok(Some(st)) => break Some(st),
            Ok(None) => {
                if std::time::Instant::now() >= deadline {
                    let _ = child.kill();
                    let _ = child.wait();
                    *TOOL_TIMED_OUT.lock().unwrap() = Some(what.clone());
                    break None;
                }
                std::thread::sleep(std::time::Duration::from_millis(5));
            }
            Err(_) => break None,
        }
    };
    let out = String::from_utf8_lossy(&t_out.join().unwrap_or_default()).to_string();
    let err = String::from_utf8_lossy(&t_err.join().unwrap_or_default()).to_string();
    (status.map_or(false, |s| s.success()), out, err)
}
