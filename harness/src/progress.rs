//! Where the process is, for the driver: a side file rewritten before every call into the
//! code under test, and a watchdog.  A process that DIES inside the code under test (abort on
//! a failed allocation, stack overflow, a signal) or that never comes back from a call
//! cannot be observed through catch_unwind; the driver reads this file to attribute the
//! death to its input.  Enabled only by `--progress <file>`.
use std::fs::File;
use std::os::unix::fs::FileExt;
use std::sync::atomic::{AtomicU64, Ordering};
use std::sync::Mutex;

static FILE: Mutex<Option<File>> = Mutex::new(None);
static BEAT: AtomicU64 = AtomicU64::new(0);

/// Exit status of a process stopped by the watchdog.
pub const HANG_EXIT: i32 = 98;

pub fn init(path: Option<&String>) {
    let Some(p) = path else { return };
    *FILE.lock().unwrap() = Some(File::create(p).expect("progress file"));
    let limit: u64 = std::env::var("VH_HANG_SECS").ok().and_then(|s| s.parse().ok()).unwrap_or(300);
    std::thread::spawn(move || {
        let mut last = BEAT.load(Ordering::Relaxed);
        let mut idle = 0u64;
        loop {
            std::thread::sleep(std::time::Duration::from_secs(1));
            let now = BEAT.load(Ordering::Relaxed);
            if now != last {
                last = now;
                idle = 0;
            } else {
                idle += 1;
                if idle >= limit {
                    if let Some(f) = FILE.lock().unwrap().as_ref() {
                        let len = f.metadata().map(|m| m.len()).unwrap_or(0);
                        let _ = f.write_at(format!("\nHANG: no call returned for {limit} s\n").as_bytes(), len);
                    }
                    std::process::exit(HANG_EXIT);
                }
            }
        }
    });
}

/// Replaces the content of the progress file (and counts as a heart beat).
pub fn note(what: &str) {
    BEAT.fetch_add(1, Ordering::Relaxed);
    if let Some(f) = FILE.lock().unwrap().as_ref() {
        let _ = f.set_len(0);
        let _ = f.write_at(what.as_bytes(), 0);
    }
}

/// A call into the code under test is about to start / has returned.
pub fn beat() {
    BEAT.fetch_add(1, Ordering::Relaxed);
}
