//! C07: connectors built from random bigram models, every id pair read through hook H2;
//! the double array probed directly through hook H7.
use std::collections::HashMap;
use std::io::Write;
use std::panic::{catch_unwind, AssertUnwindSafe};

use serde_json::{json, Value};

use crate::adict::*;
use crate::gen::*;
use crate::rng::Rng;

fn tiny_dict(model: &ABigram, dual: bool) -> ADict {
    ADict {
        cats: vec![ACat { name: "DEFAULT".into(), invoke: 0, group: 1, length: 0 }],
        default_line_pos: 0,
        ranges: vec![],
        lex: vec![AWord { s: vec![0x61], l: 0, r: 0, c: 0, f: "a".into() }],
        user: None,
        unk: vec![AUnk { cat: 0, l: 0, r: 0, c: 0, f: "u".into() }],
        conn: AConn::Bigram { dual, model: model.clone() },
        iso: false,
    }
}

pub fn conn_event(model: &ABigram, dual: bool) -> Value {
    let r = catch_unwind(AssertUnwindSafe(|| {
        let d = tiny_dict(model, dual);
        match d.build_system() {
            Ok(dict) => {
                let nr = dict.verif_num_right();
                let nl = dict.verif_num_left();
                let mut costs = vec![];
                for l in 0..nl {
                    for r in 0..nr {
                        costs.push(dict.verif_conn_cost(r as u16, l as u16));
                    }
                }
                json!({"ev": "conn", "bg": bigram_json(model), "dual": dual, "avx2": cfg!(target_feature = "avx2"),
                       "nr": nr, "nl": nl, "costs": costs})
            }
            Err(e) => json!({"ev": "conn_err", "bg": bigram_json(model), "dual": dual, "msg": e.to_string()}),
        }
    }));
    match r {
        Ok(v) => v,
        Err(_) => json!({"ev": "panic", "op": {"op": "build"}, "bg": bigram_json(model), "dual": dual}),
    }
}

pub fn scorer_event(rng: &mut Rng) -> Value {
    let nk = 1 + rng.below(12);
    let space = 2 + rng.below(30) as u32;
    let mut entries: Vec<(u32, u32, i32)> = vec![];
    for i in 0..nk {
        let (a, b) = (rng.below(space as usize) as u32, rng.below(space as usize) as u32);
        entries.retain(|e| !(e.0 == a && e.1 == b));
        entries.push((a, b, (i as i32 + 1) * if rng.chance(1, 2) { 1 } else { -1 }));
    }
    let mut queries: Vec<(u32, u32)> = entries.iter().map(|e| (e.0, e.1)).collect();
    for _ in 0..8 {
        queries.push((rng.below(space as usize + 3) as u32, rng.below(space as usize + 3) as u32));
    }
    queries.push((0x7fff_ffff, 0));
    queries.push((0, 0x7fff_ffff));
    let res = vibrato::verif::scorer_probe(&entries, &queries);
    json!({"ev": "scorer",
           "entries": entries.iter().map(|e| json!([e.0, e.1, e.2])).collect::<Vec<_>>(),
           "queries": queries.iter().zip(res).map(|(q, r)| json!([q.0, q.1, r.unwrap_or(0)])).collect::<Vec<_>>()})
}

pub fn record(a: &HashMap<String, String>) -> i32 {
    let seed: u64 = a.get("seed").and_then(|s| s.parse().ok()).unwrap_or(1);
    let n: usize = a.get("models").and_then(|s| s.parse().ok()).unwrap_or(50);
    let maxk: usize = a.get("maxk").and_then(|s| s.parse().ok()).unwrap_or(12);
    let out = a.get("out").expect("--out");
    let mut rng = Rng::new(seed ^ 0xC077);
    let mut f = std::io::BufWriter::new(std::fs::File::create(out).expect("create"));
    // boundary models: K templates that all carry one feature pair with one cost, chosen so that the
    // pre-summed part of the dual connector (K - 8 templates, whichever they are) is exactly the
    // smallest / close to the largest 16-bit value - it FITS, so raw and dual must agree
    for (k, v) in [(16usize, -4096i32), (16, 4095), (9, -32768), (9, 32767), (10, -16384), (10, 16383)] {
        let model = ABigram { right: vec![vec!["A".to_string(); k]], left: vec![vec!["a".to_string(); k]],
                              cost: vec![("A".to_string(), "a".to_string(), v), ("".to_string(), "a".to_string(), 3), ("A".to_string(), "".to_string(), -2)] };
        for dual in [false, true] {
            writeln!(f, "{}", conn_event(&model, dual)).unwrap();
        }
    }
    for i in 0..n {
        let nr = 1 + rng.below(6);
        let nl = 1 + rng.below(6);
        let model = gen_bigram(&mut rng, nr, nl, 1, maxk);
        for dual in [false, true] {
            writeln!(f, "{}", conn_event(&model, dual)).unwrap();
        }
        if i % 3 == 0 {
            // costs beyond 16 bits: raw connector only
            let big = gen_bigram_ext(&mut rng, nr, nl, 1, maxk, true);
            writeln!(f, "{}", conn_event(&big, false)).unwrap();
        }
        if i % 2 == 0 {
            writeln!(f, "{}", scorer_event(&mut rng)).unwrap();
        }
    }
    0
}

/// Replays TLC-generated models: one JSON object {"bg": ...} per line.
pub fn replay(a: &HashMap<String, String>) -> i32 {
    let inp = a.get("in").expect("--in");
    let out = a.get("out").expect("--out");
    let text = std::fs::read_to_string(inp).expect("read");
    let mut f = std::io::BufWriter::new(std::fs::File::create(out).expect("create"));
    for line in text.lines().filter(|l| !l.trim().is_empty()) {
        let v: Value = serde_json::from_str(line).expect("json");
        let d = ADict::from_json(&json!({"cats": [{"invoke": 0, "group": 1, "length": 0}], "space": -1, "bg": v["bg"]}));
        if let AConn::Bigram { model, .. } = &d.conn {
            for dual in [false, true] {
                writeln!(f, "{}", conn_event(model, dual)).unwrap();
            }
        }
    }
    0
}
