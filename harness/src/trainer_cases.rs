//! C17 / C18 / C19: rewrite rules, feature templates and the corpus format.  The harness renders
//! structured inputs to rewrite.def / feature.def / corpus text, calls vibrato and logs what it
//! returns; FirstMatch, Expand/Intern and ParseCorpus live in the TLA+ specification.
use std::collections::HashMap;
use std::io::Write;
use std::panic::{catch_unwind, AssertUnwindSafe};

use serde_json::{json, Value};
use vibrato::trainer::Corpus;
use vibrato::Tokenizer;

use crate::adict::*;
use crate::gen::*;
use crate::rng::Rng;

fn open(a: &HashMap<String, String>) -> std::io::BufWriter<std::fs::File> {
    std::io::BufWriter::new(std::fs::File::create(a.get("out").expect("--out")).expect("create"))
}

fn read_lines(a: &HashMap<String, String>) -> Vec<Value> {
    let text = std::fs::read_to_string(a.get("in").expect("--in")).expect("read");
    text.lines().filter(|l| !l.trim().is_empty()).map(|l| serde_json::from_str(l).expect("json")).collect()
}

// ------------------------------------------------------------------ C17

fn pat_text(p: &Value) -> String {
    match p["k"].as_str().unwrap() {
        "any" => "*".to_string(),
        "lit" => p["v"].as_str().unwrap().to_string(),
        _ => format!("({})", p["v"].as_array().unwrap().iter().map(|x| x.as_str().unwrap()).collect::<Vec<_>>().join("|")),
    }
}

fn out_text(c: &Value) -> String {
    match c["k"].as_str().unwrap() {
        "ref" => format!("${}", c["i"].as_u64().unwrap()),
        _ => c["v"].as_str().unwrap().to_string(),
    }
}

fn rule_line(r: &Value) -> String {
    let pat: Vec<String> = r["pat"].as_array().unwrap().iter().map(pat_text).collect();
    let out: Vec<String> = r["out"].as_array().unwrap().iter().map(out_text).collect();
    format!("{}\t{}", pat.join(","), out.join(","))
}

/// rewrite.def with the rules under the given section; the other sections hold decoys.
fn rewrite_def(rules: &Value, section: u8) -> String {
    let names = ["[unigram rewrite]", "[left rewrite]", "[right rewrite]"];
    let mut s = String::from("# generated\n");
    for (i, n) in names.iter().enumerate() {
        s.push_str(n);
        s.push('\n');
        if i as u8 == section {
            for r in rules.as_array().unwrap() {
                s.push_str(&rule_line(r));
                s.push('\n');
            }
        } else {
            s.push_str("*\tDECOY,$1\n\n");
        }
    }
    s
}

fn rewrite_event(rules: &Value, section: u8, feat_lists: &[Vec<String>]) -> Value {
    let def = rewrite_def(rules, section);
    let mut cases = vec![];
    for fs in feat_lists {
        let r = catch_unwind(AssertUnwindSafe(|| vibrato::verif::train::rewrite(&def, section, fs)));
        match r {
            Ok(Ok(Some(out))) => cases.push(json!({"feats": fs, "hit": true, "out": out})),
            Ok(Ok(None)) => cases.push(json!({"feats": fs, "hit": false, "out": fs})),
            Ok(Err(e)) => return json!({"ev": "rewrite_err", "rules": rules, "msg": e.to_string()}),
            Err(_) => return json!({"ev": "panic", "op": {"op": "rewrite"}, "rules": rules, "feats": fs}),
        }
    }
    json!({"ev": "rewrite", "rules": rules, "section": section, "cases": cases})
}

fn all_lists(alpha: &[&str], maxlen: usize) -> Vec<Vec<String>> {
    let mut out: Vec<Vec<String>> = vec![vec![]];
    let mut frontier: Vec<Vec<String>> = vec![vec![]];
    for _ in 0..maxlen {
        let mut next = vec![];
        for f in &frontier {
            for a in alpha {
                let mut g = f.clone();
                g.push(a.to_string());
                next.push(g);
            }
        }
        out.extend(next.clone());
        frontier = next;
    }
    out
}

/// TLC-generated rule lists ({"rules": [...]}) against all feature lists over {a,b,c}.
pub fn rewrite_cases(a: &HashMap<String, String>) -> i32 {
    let maxlen: usize = a.get("maxlen").and_then(|s| s.parse().ok()).unwrap_or(3);
    let lists = all_lists(&["a", "b", "c"], maxlen);
    let mut f = open(a);
    for (i, v) in read_lines(a).iter().enumerate() {
        writeln!(f, "{}", rewrite_event(&v["rules"], (i % 3) as u8, &lists)).unwrap();
    }
    0
}

pub fn record_rewrite(a: &HashMap<String, String>) -> i32 {
    let seed: u64 = a.get("seed").and_then(|s| s.parse().ok()).unwrap_or(1);
    let n: usize = a.get("n").and_then(|s| s.parse().ok()).unwrap_or(200);
    let mut rng = Rng::new(seed ^ 0x2E17);
    let alpha = ["a", "b", "名詞", "x-y", "c"];
    let mut f = open(a);
    for i in 0..n {
        let nrules = 1 + rng.below(6);
        let ncols = 1 + rng.below(4);
        let mut rules: Vec<Value> = vec![];
        let mut pats: Vec<Vec<Value>> = vec![];
        for k in 0..nrules {
            let fresh = |rng: &mut Rng| -> Value {
                match rng.below(4) {
                    0 => json!({"k": "any"}),
                    1 => {
                        let mut alts: Vec<&str> = vec![];
                        // alternatives may themselves be parenthesised: ((株)|㈱)
                        let altpool = ["a", "b", "名詞", "x-y", "c", "(株)", "(y)", "㈱"];
                        for _ in 0..(1 + rng.below(3)) {
                            let x = *rng.pick(&altpool);
                            if !alts.contains(&x) {
                                alts.push(x);
                            }
                        }
                        json!({"k": "alt", "v": alts})
                    }
                    _ => json!({"k": "lit", "v": rng.pick(&alpha)}),
                }
            };
            // half of the rules are derived from an earlier one (shared prefixes of different
            // lengths: truncate, extend, or change the last cell), the others are fresh
            let pat: Vec<Value> = if !pats.is_empty() && rng.chance(1, 2) {
                let mut p = rng.pick(&pats).clone();
                match rng.below(3) {
                    0 if p.len() > 1 => {
                        p.truncate(1 + rng.below(p.len() - 1));
                    }
                    1 => p.push(fresh(&mut rng)),
                    _ => {
                        let n = p.len();
                        p[n - 1] = fresh(&mut rng);
                    }
                }
                p
            } else {
                let len = 1 + rng.below(ncols);
                (0..len).map(|_| fresh(&mut rng)).collect()
            };
            pats.push(pat.clone());
            let olen = 1 + rng.below(4);
            let mut out: Vec<Value> = vec![json!({"k": "text", "v": format!("R{k}")})];
            for _ in 0..olen {
                // $n references: mostly 1..6, sometimes two digits with a zero ($10, $20) - beyond most inputs, so '*'
                let refno = |rng: &mut Rng| -> usize { if rng.chance(1, 6) { *rng.pick(&[10usize, 20, 11]) } else { 1 + rng.below(6) } };
                out.push(if rng.chance(1, 2) { json!({"k": "ref", "i": refno(&mut rng)}) } else { json!({"k": "text", "v": rng.pick(&alpha)}) });
            }
            rules.push(json!({"pat": pat, "out": out}));
        }
        let mut lists = vec![];
        for _ in 0..16 {
            if rng.chance(1, 2) {
                // an instance of some rule's pattern, possibly extended
                let p = rng.pick(&pats).clone();
                let mut fs: Vec<String> = p.iter().map(|c| match c["k"].as_str().unwrap() {
                    "lit" => c["v"].as_str().unwrap().to_string(),
                    "alt" => {
                        let alts: Vec<&str> = c["v"].as_array().unwrap().iter().map(|x| x.as_str().unwrap()).collect();
                        match rng.below(6) {
                            // near misses of an alternative pattern: a fragment of an alternative, the
                            // empty feature, the text of the whole alternation - none of them is listed
                            0 => rng.pick(&alts).chars().take(1).collect(),
                            1 => rng.pick(&alts).chars().skip(1).collect(),
                            2 => String::new(),
                            3 => alts.join("|"),
                            _ => rng.pick(&alts).to_string(),
                        }
                    }
                    _ => rng.pick(&alpha).to_string(),
                }).collect();
                for _ in 0..rng.below(3) {
                    fs.push(rng.pick(&alpha).to_string());
                }
                lists.push(fs);
            } else {
                let len = if rng.chance(1, 8) { 10 + rng.below(3) } else { rng.below(ncols + 2) };
                lists.push((0..len).map(|_| rng.pick(&alpha).to_string()).collect::<Vec<_>>());
            }
        }
        writeln!(f, "{}", rewrite_event(&Value::Array(rules), (i % 3) as u8, &lists)).unwrap();
    }
    0
}

// ------------------------------------------------------------------ C18 (templates)

fn tpl_text(t: &Value, side: char) -> String {
    let mut s = String::new();
    for p in t.as_array().unwrap() {
        match p["k"].as_str().unwrap() {
            "lit" => s.push_str(p["v"].as_str().unwrap()),
            "type" => s.push_str("%t"),
            "ref" => s.push_str(&format!("%{}[{}]", side, p["i"].as_u64().unwrap())),
            _ => s.push_str(&format!("%{}?[{}]", side, p["i"].as_u64().unwrap())),
        }
    }
    s
}

/// T = {"uni": [tpl], "left": [tpl], "right": [tpl]} with |left| = |right|.
pub fn feature_def(t: &Value) -> String {
    let mut s = String::from("# generated\n");
    // lines as editors leave them: some indented, some with blanks or a tab after the last template
    let mut k = 0usize;
    let mut put = |s: &mut String, line: String| {
        k += 1;
        let lead = if (k + line.len()) % 5 == 0 { "  " } else { "" };
        let trail = match (k + line.len()) % 4 { 0 => " ", 1 => "\t ", _ => "" };
        s.push_str(&format!("{lead}{line}{trail}\n"));
    };
    for u in t["uni"].as_array().unwrap() {
        put(&mut s, format!("UNIGRAM {}", tpl_text(u, 'F')));
    }
    let l = t["left"].as_array().unwrap();
    let r = t["right"].as_array().unwrap();
    for (a, b) in l.iter().zip(r) {
        put(&mut s, format!("BIGRAM {}/{}", tpl_text(a, 'L'), tpl_text(b, 'R')));
    }
    s
}

fn expand_event(t: &Value, rows: &Value) -> Value {
    let def = feature_def(t);
    let rs: Vec<(u8, Vec<String>, u32)> = rows.as_array().unwrap().iter().map(|r| (
        r["kind"].as_u64().unwrap() as u8,
        r["feats"].as_array().unwrap().iter().map(|x| x.as_str().unwrap().to_string()).collect(),
        r["cate"].as_u64().unwrap() as u32,
    )).collect();
    let r = catch_unwind(AssertUnwindSafe(|| vibrato::verif::train::expand(&def, &rs)));
    match r {
        Ok(Ok(x)) => {
            let ids: Vec<Vec<u32>> = x.ids.iter().map(|v| v.iter().map(|o| o.unwrap_or(0)).collect()).collect();
            let tab = |m: &Vec<(String, u32)>| -> Value { Value::Array(m.iter().map(|(s, i)| json!({"s": s, "id": i})).collect()) };
            json!({"ev": "expand", "T": t, "rows": rows, "ids": ids, "uni": tab(&x.unigram), "left": tab(&x.left), "right": tab(&x.right)})
        }
        Ok(Err(e)) => json!({"ev": "expand_err", "T": t, "msg": e.to_string()}),
        Err(_) => json!({"ev": "panic", "op": {"op": "expand"}, "T": t, "rows": rows}),
    }
}

pub fn expand_cases(a: &HashMap<String, String>) -> i32 {
    let mut f = open(a);
    for v in read_lines(a) {
        writeln!(f, "{}", expand_event(&v["T"], &v["rows"])).unwrap();
    }
    0
}

pub fn gen_template(rng: &mut Rng, tag: &str, with_type: bool) -> Value {
    let mut parts = vec![json!({"k": "lit", "v": tag})];
    let n = 1 + rng.below(3);
    for j in 0..n {
        if j > 0 {
            parts.push(json!({"k": "lit", "v": if rng.chance(1, 2) { "," } else { "-" }}));
        }
        // column indices: mostly 0..3, sometimes two digits (10..12)
        let col = |rng: &mut Rng| -> usize { if rng.chance(1, 8) { 10 + rng.below(3) } else { rng.below(4) } };
        parts.push(match rng.below(6) {
            0 | 1 => json!({"k": "opt", "i": col(rng)}),
            2 if with_type => json!({"k": "type"}),
            _ => json!({"k": "ref", "i": col(rng)}),
        });
    }
    if rng.chance(1, 4) {
        // literal text after the last reference
        parts.push(json!({"k": "lit", "v": if rng.chance(1, 2) { ">" } else { "]x" }}));
    }
    Value::Array(parts)
}

pub fn gen_templates(rng: &mut Rng, same_tags: bool) -> Value {
    let nu = 1 + rng.below(3);
    let nb = 1 + rng.below(3);
    let tag = |i: usize, p: &str| if same_tags { "t:".to_string() } else { format!("{p}{i}:") };
    json!({
        "uni": (0..nu).map(|i| gen_template(rng, &tag(i, "U"), true)).collect::<Vec<_>>(),
        "left": (0..nb).map(|i| gen_template(rng, &tag(i, "B"), false)).collect::<Vec<_>>(),
        "right": (0..nb).map(|i| gen_template(rng, &tag(i, "B"), false)).collect::<Vec<_>>(),
    })
}

pub fn record_expand(a: &HashMap<String, String>) -> i32 {
    let seed: u64 = a.get("seed").and_then(|s| s.parse().ok()).unwrap_or(1);
    let n: usize = a.get("n").and_then(|s| s.parse().ok()).unwrap_or(200);
    let mut rng = Rng::new(seed ^ 0x7E18);
    let vals = ["a", "b", "*", "名詞", "q,r", ""];
    let mut f = open(a);
    for _ in 0..n {
        let same = rng.chance(1, 3);
        let t = gen_templates(&mut rng, same);
        let nrows = 1 + rng.below(8);
        let rows: Vec<Value> = (0..nrows).map(|_| {
            let len = if rng.chance(1, 3) { 10 + rng.below(4) } else { rng.below(5) };
            json!({"kind": rng.below(3), "feats": (0..len).map(|_| rng.pick(&vals).to_string()).collect::<Vec<_>>(), "cate": rng.below(4)})
        }).collect();
        writeln!(f, "{}", expand_event(&t, &Value::Array(rows))).unwrap();
    }
    0
}

// ------------------------------------------------------------------ C17 / C18: extract_feature_set

/// `Trainer::extract_feature_set` as a whole: the three sections of rewrite.def applied to the
/// word's OWN feature list (unchanged when no rule of the section matches), then the templates.
/// `simple`: every template is one plain reference (%F[k] / %L[k] / %R[k]), so that the expanded
/// strings show the rewritten cells themselves.
pub fn record_fsets(a: &HashMap<String, String>) -> i32 {
    let seed: u64 = a.get("seed").and_then(|s| s.parse().ok()).unwrap_or(1);
    let n: usize = a.get("n").and_then(|s| s.parse().ok()).unwrap_or(200);
    let mut rng = Rng::new(seed ^ 0xF5E7);
    let vals = ["N", "V", "名詞", "x", "y", "q,r", "*"];
    let mut f = open(a);
    for i in 0..n {
        let simple = i % 2 == 0;
        let t = if simple {
            let k = 2 + rng.below(3);
            let one = |tag: &str, j: usize| json!([{"k": "lit", "v": format!("{tag}{j}:")}, {"k": "ref", "i": j}]);
            json!({"uni": (0..k).map(|j| one("U", j)).collect::<Vec<_>>(),
                   "left": (0..k).map(|j| one("B", j)).collect::<Vec<_>>(),
                   "right": (0..k).map(|j| one("B", j)).collect::<Vec<_>>()})
        } else {
            let same = rng.chance(1, 3);
            gen_templates(&mut rng, same)
        };
        // three sections that differ (the bundled rewrite.def has three identical ones)
        let mut rules = crate::train::gen_rules(&mut rng);
        if rng.chance(1, 2) {
            // a unigram rule that changes a column the other sections look at
            rules["uni"] = json!([{"pat": [{"k": "any"}], "out": [{"k": "text", "v": "Z"}, {"k": "ref", "i": 1}]}]);
        }
        let nrows = 1 + rng.below(6);
        let rows: Vec<(Vec<String>, u32)> = (0..nrows).map(|_| {
            let len = if rng.chance(1, 4) { 11 + rng.below(3) } else { 1 + rng.below(4) };
            ((0..len).map(|_| rng.pick(&vals).to_string()).collect(), rng.below(4) as u32)
        }).collect();
        let fdef = feature_def(&t);
        let rdef = crate::train::rewrite_def3(&rules);
        let texts: Vec<(String, u32)> = rows.iter().map(|(c, k)| (crate::train::cells_text(c), *k)).collect();
        let rows_json: Vec<Value> = rows.iter().map(|(c, k)| json!({"cells": c, "cate": k})).collect();
        let r = catch_unwind(AssertUnwindSafe(|| vibrato::trainer::Trainer::verif_feature_sets(&fdef, &rdef, &texts)));
        let ev = match r {
            Ok(Ok((sets, maps))) => {
                let tab = |m: &Vec<(String, u32)>| -> Value { Value::Array(m.iter().map(|(s, i)| json!({"s": s, "id": i})).collect()) };
                let o = |v: &Vec<Option<u32>>| -> Vec<u32> { v.iter().map(|x| x.unwrap_or(0)).collect() };
                json!({"ev": "fset", "simple": simple, "T": t, "rules": rules, "rows": rows_json,
                       "ids": sets.iter().map(|(u, l, r)| json!({"u": u, "l": o(l), "r": o(r)})).collect::<Vec<_>>(),
                       "uni": tab(&maps[0]), "left": tab(&maps[1]), "right": tab(&maps[2])})
            }
            Ok(Err(e)) => json!({"ev": "fset_err", "T": t, "rules": rules, "msg": e.to_string()}),
            Err(_) => json!({"ev": "panic", "op": {"op": "fset"}, "T": t, "rules": rules, "rows": rows_json}),
        };
        writeln!(f, "{}", ev).unwrap();
    }
    0
}

// ------------------------------------------------------------------ C19

fn corpus_event(lines: &Vec<Vec<String>>, final_nl: bool, extra: Value) -> Value {
    // an empty last line only exists in the text if it is terminated
    let final_nl = final_nl || lines.last().map_or(false, |l| l.join("\t").is_empty());
    let mut text = String::new();
    for (i, l) in lines.iter().enumerate() {
        text.push_str(&l.join("\t"));
        if i + 1 < lines.len() || final_nl {
            text.push('\n');
        }
    }
    let r = catch_unwind(AssertUnwindSafe(|| Corpus::from_reader(text.as_bytes())));
    match r {
        Ok(Ok(c)) => {
            let examples: Vec<Value> = c.iter().map(|ex| Value::Array(ex.tokens().iter().map(|w| json!({"s": w.surface(), "f": w.feature()})).collect())).collect();
            // write every example back and split the text again into lines of tab-separated parts
            let mut buf = vec![];
            for ex in c.iter() {
                ex.write(&mut buf).unwrap();
            }
            // the same through a writer that takes at most 7 bytes per call (std::io::Write allows that)
            struct Short(Vec<u8>);
            impl std::io::Write for Short {
                fn write(&mut self, b: &[u8]) -> std::io::Result<usize> {
                    let n = b.len().min(7);
                    self.0.extend_from_slice(&b[..n]);
                    Ok(n)
                }
                fn flush(&mut self) -> std::io::Result<()> { Ok(()) }
            }
            let mut sw = Short(vec![]);
            for ex in c.iter() {
                ex.write(&mut sw).unwrap();
            }
            let short_same = sw.0 == buf;
            let written = String::from_utf8(buf).unwrap();
            let wl: Vec<Vec<String>> = written.lines().map(|l| l.split('\t').map(|p| p.to_string()).collect()).collect();
            let ends_nl = written.is_empty() || written.ends_with('\n');
            // and parse the written text once more
            let again = Corpus::from_reader(written.as_bytes()).map(|c2| c2.iter().map(|ex| Value::Array(ex.tokens().iter().map(|w| json!({"s": w.surface(), "f": w.feature()})).collect())).collect::<Vec<_>>());
            json!({"ev": "corpus", "lines": lines, "ok": true, "examples": examples, "written": wl, "written_nl": ends_nl,
                   "reparse_ok": again.is_ok(), "reparsed": again.unwrap_or_default(), "extra": extra, "short_same": short_same})
        }
        Ok(Err(_)) => json!({"ev": "corpus", "lines": lines, "ok": false, "examples": [], "written": [], "written_nl": true, "reparse_ok": true, "reparsed": [], "extra": extra}),
        Err(_) => json!({"ev": "panic", "op": {"op": "corpus"}, "lines": lines}),
    }
}

/// A corpus whose bytes are not valid UTF-8 at one place (a file cut inside a multi-byte character,
/// a line in another encoding): the reader must report an error, never return the examples read so far.
fn corpus_invalid_event(rng: &mut Rng) -> Value {
    let mut bytes: Vec<u8> = "東京\t名詞,トーキョー\nに\t助詞,ニ\nEOS\n行く\t動詞,イク\nEOS\n".as_bytes().to_vec();
    let how = match rng.below(3) {
        0 => { let p = rng.below(bytes.len()); bytes.insert(p, 0xFF); "stray-0xFF" }
        1 => { let p = 1 + rng.below(5); bytes.remove(p); "byte-of-a-multi-byte-character-lost" }
        _ => { let p = bytes.len() - 12; bytes.splice(p..p, [0x93u8, 0x8C]); "shift-jis-bytes" }
    };
    let valid = std::str::from_utf8(&bytes).is_ok();
    let r = catch_unwind(AssertUnwindSafe(|| Corpus::from_reader(bytes.as_slice()).map(|c| c.len())));
    match r {
        Ok(Ok(n)) => json!({"ev": "corpus_bytes", "how": how, "valid_utf8": valid, "ok": true, "examples": n}),
        Ok(Err(_)) => json!({"ev": "corpus_bytes", "how": how, "valid_utf8": valid, "ok": false, "examples": 0}),
        Err(_) => json!({"ev": "panic", "op": {"op": "corpus"}, "how": how}),
    }
}

pub fn corpus_cases(a: &HashMap<String, String>) -> i32 {
    let mut f = open(a);
    for (i, v) in read_lines(a).iter().enumerate() {
        let lines: Vec<Vec<String>> = v["lines"].as_array().unwrap().iter().map(|l| l.as_array().unwrap().iter().map(|p| p.as_str().unwrap().to_string()).collect()).collect();
        writeln!(f, "{}", corpus_event(&lines, i % 2 == 0, json!({}))).unwrap();
    }
    0
}

/// Tokenizer output in MeCab format fed back as a corpus (the tokenize -> train/split/evaluate loop).
pub fn record_mecab_lines(a: &HashMap<String, String>) -> i32 {
    let seed: u64 = a.get("seed").and_then(|s| s.parse().ok()).unwrap_or(1);
    let n: usize = a.get("n").and_then(|s| s.parse().ok()).unwrap_or(50);
    let mut rng = Rng::new(seed ^ 0xC019);
    let mut f = open(a);
    let mut done = 0;
    while done < n {
        let cfg = GenCfg { conn_kind: 0, ..Default::default() };
        let mut d = gen_dict(&mut rng, &cfg);
        if rng.chance(1, 3) && !d.lex.is_empty() {
            d.lex[0].s = "EOS".chars().map(|c| c as u32).collect(); // a word whose surface is EOS
        }
        if rng.chance(1, 3) {
            let k = rng.below(d.lex.len());
            d.lex[k].f = String::new(); // a word whose feature column is empty: `surface<TAB>` in the output
        }
        let dict = match d.build() {
            Ok(x) => x,
            Err(_) => continue,
        };
        let isp = d.space_cat() >= 0 && rng.chance(1, 2);
        let tok = match Tokenizer::new(dict).ignore_space(isp) {
            Ok(t) => t,
            Err(_) => continue,
        };
        let mut w = tok.new_worker();
        for _ in 0..6 {
            let mut s = gen_sentence(&mut rng, &d, 12);
            if rng.chance(1, 5) {
                s = "EOS".chars().map(|c| c as u32).collect();
            }
            w.reset_sentence(cps_to_string(&s));
            w.tokenize();
            let toks: Vec<Value> = (0..w.num_tokens()).map(|i| json!({"s": w.token(i).surface(), "f": w.token(i).feature()})).collect();
            // exactly what `tokenize -O mecab` prints
            let mut lines: Vec<Vec<String>> = (0..w.num_tokens()).map(|i| vec![w.token(i).surface().to_string(), w.token(i).feature().to_string()]).collect();
            lines.push(vec!["EOS".to_string()]);
            writeln!(f, "{}", corpus_event(&lines, true, json!({"toks": toks, "sentence": s}))).unwrap();
            done += 1;
        }
    }
    0
}

pub fn record_corpus(a: &HashMap<String, String>) -> i32 {
    let seed: u64 = a.get("seed").and_then(|s| s.parse().ok()).unwrap_or(1);
    let n: usize = a.get("n").and_then(|s| s.parse().ok()).unwrap_or(200);
    let mut rng = Rng::new(seed ^ 0xC119);
    let pool: Vec<Vec<&str>> = vec![vec!["東京", "名詞,地名"], vec!["a b", "x"], vec!["", "E"], vec!["EOS", "f"], vec!["EOS"], vec!["EOS"],
                                    vec!["a"], vec!["a", "N", "z"], vec![""], vec!["に", "助詞,\"q,r\""], vec![" ", "sp"], vec!["EOS "],
                                    // a token whose feature is the empty string (`surface<TAB>`): the tab is part of the line
                                    vec!["a", ""], vec!["東京", ""], vec!["EOS", ""]];
    let mut f = open(a);
    for i in 0..n {
        let len = rng.below(10);
        let lines: Vec<Vec<String>> = (0..len).map(|_| {
            let l = if rng.chance(4, 5) { &pool[rng.below(6)] } else { &pool[6 + rng.below(pool.len() - 6)] };
            l.iter().map(|p| p.to_string()).collect()
        }).collect();
        writeln!(f, "{}", corpus_event(&lines, i % 3 != 0, json!({}))).unwrap();
        if i % 100 == 7 && i < 500 {
            // one token whose surface is longer than 65535 bytes (a long run grouped into one unknown word)
            let big: String = std::iter::repeat(if i % 200 == 7 { 'x' } else { 'あ' }).take(70000).collect();
            let lines = vec![vec!["a".to_string(), "N".to_string()], vec![big, "名詞,長".to_string()], vec!["EOS".to_string()]];
            writeln!(f, "{}", corpus_event(&lines, true, json!({}))).unwrap();
        }
        if i % 25 == 0 {
            writeln!(f, "{}", corpus_invalid_event(&mut rng)).unwrap();
        }
    }
    0
}

// ------------------------------------------------------------------ C20

/// weight = w8 / 8, spelled in one of the ways a model.def may spell it (`style` picks one)
fn w8_text(w8: i64, style: usize) -> String {
    let neg = if w8 < 0 { "-" } else { "" };
    let a = w8.abs();
    let (int, frac) = (a / 8, (a % 8) * 125);
    if frac == 0 {
        match style % 4 {
            0 => format!("{neg}{int}"),          // 3   -2
            1 => format!("{neg}{int}."),         // 3.
            2 => format!("{neg}{int}.0"),
            _ => format!("{neg}{int}.000"),
        }
    } else if int == 0 && style % 3 == 0 {
        format!("{neg}.{}", format!("{:03}", frac).trim_end_matches('0'))      // .5  -.125
    } else if style % 2 == 0 {
        format!("{neg}{int}.{}", format!("{:03}", frac).trim_end_matches('0'))
    } else {
        format!("{neg}{int}.{:03}", frac)
    }
}

fn expand_tpl(t: &Value, feats: &[String]) -> Option<String> {
    expand_tpl_ext(t, feats, false)
}

/// `force`: optional references are expanded like plain ones - the text a template would produce if
/// its suppression ("no feature when an optional reference is '*'") were ignored.
fn expand_tpl_ext(t: &Value, feats: &[String], force: bool) -> Option<String> {
    // the harness' own rendering of an expansion - used ONLY to produce model.def lines that hit
    let mut s = String::new();
    for p in t.as_array().unwrap() {
        match p["k"].as_str().unwrap() {
            "lit" => s.push_str(p["v"].as_str().unwrap()),
            "type" => s.push('0'),
            k => {
                let v = feats.get(p["i"].as_u64().unwrap() as usize).map_or("*", |x| x.as_str());
                if k == "opt" && v == "*" && !force {
                    return None;
                }
                s.push_str(v);
            }
        }
    }
    Some(s)
}

pub struct MecabCase {
    pub d: Value,
    pub fdef: String,
    pub rtext: String,
    pub ltext: String,
    pub mtext: String,
    pub factor: i64,
    pub malformed: bool,
    pub nr: usize,
    pub nl: usize,
}

pub fn gen_mecab_case(rng_in: &mut Rng) -> MecabCase {
    let mut rng = rng_in.fork();
    // feature cells of the id tables; one of them needs CSV quoting (a comma inside the cell)
    let vals = ["a", "b", "*", "名詞", "c", "q,r"];
    let t = gen_templates(&mut rng, false);
        let table = |rng: &mut Rng, bad: u8| -> Vec<(usize, Vec<String>)> {
            let nids = 1 + rng.below(4);
            let mut tab: Vec<(usize, Vec<String>)> = vec![(0, vec!["BOS/EOS".into(), "*".into(), "*".into()])];
            for id in 1..=nids {
                let len = 1 + rng.below(3);
                tab.push((id, (0..len).map(|_| rng.pick(&vals).to_string()).collect()));
            }
            match bad {
                1 => { let k = tab.len() - 1; tab[k].0 += 1; }          // a gap before the last id
                2 => tab[0].1[0] = "a".into(),                           // id 0 is not BOS/EOS
                3 if tab.len() > 2 => { tab.remove(1); }                 // id 1 missing
                _ => {}
            }
            if bad == 0 && rng.chance(1, 4) {
                tab.swap(0, 1);                                          // file order is free
            }
            tab
        };
        let bad = if rng.chance(1, 5) { 1 + rng.below(3) as u8 } else { 0 };
        let bad_side = rng.chance(1, 2);
        let rtab = table(&mut rng, if bad_side { bad } else { 0 });
        let ltab = table(&mut rng, if bad_side { 0 } else { bad });
        let malformed = bad == 0 && rng.chance(1, 12);
        let factor = *rng.pick(&[1i64, 10, 700, 800]);
        // model lines: hits derived from real id pairs, misses, BOS/EOS lines, zero weights, duplicates
        let mut lines: Vec<(i64, String, String)> = vec![];
        let nb = t["left"].as_array().unwrap().len();
        for _ in 0..(2 + rng.below(10)) {
            let k = rng.below(nb);
            let r = rng.pick(&rtab).clone();
            let l = rng.pick(&ltab).clone();
            let le = expand_tpl(&t["left"][k], &r.1);
            let re = expand_tpl(&t["right"][k], &l.1);
            let w8 = match rng.below(6) { 0 => 0, 1 => rng.range(-3, 3), 2 => 8 * rng.range(-500, 500), _ => rng.range(-4000, 4000) };
            match (le, re) {
                (Some(le), Some(re)) if rng.chance(4, 5) && r.0 != 0 && l.0 != 0 => lines.push((w8, le, re)),
                (le, re) if (le.is_none() || re.is_none()) && rng.chance(1, 2) => {
                    // the text a suppressed template WOULD have produced: such a line matches no id pair
                    let lf = expand_tpl_ext(&t["left"][k], &r.1, true).unwrap_or_default();
                    let rf = expand_tpl_ext(&t["right"][k], &l.1, true).unwrap_or_default();
                    lines.push((w8, lf, rf));
                }
                _ => lines.push((w8, format!("miss{}", rng.below(3)), "x".into())),
            }
        }
        if rng.chance(1, 2) && !lines.is_empty() {
            let d = rng.pick(&lines).clone();
            lines.push((rng.range(-4000, 4000), d.1, d.2));          // the same text again: the last line counts
        }
        // render
        let fdef = feature_def(&t);
        let tab_text = |tab: &Vec<(usize, Vec<String>)>, broken: bool| -> String {
            let mut s = String::new();
            for (i, (id, feats)) in tab.iter().enumerate() {
                if broken && i == tab.len() - 1 {
                    s.push_str("not-a-line\n");
                }
                s.push_str(&format!("{} {}\n", id, feats.iter().map(|c| crate::adict::csv_cell(c)).collect::<Vec<_>>().join(",")));
            }
            s
        };
        let rtext = tab_text(&rtab, malformed);
        let ltext = tab_text(&ltab, false);
        let mut mtext = String::from("0.5\tU1:unigram-feature\n");
        for (k, (w8, lt, rt)) in lines.iter().enumerate() {
            mtext.push_str(&format!("{}\t{}/{}\n", w8_text(*w8, k + rng.below(4)), lt, rt));
        }
        mtext.push_str(&format!("{}\tBOS/EOS/{}\n", w8_text(24, 0), lines.first().map_or("x".to_string(), |l| l.2.clone())));
        let d = json!({"T": {"left": t["left"], "right": t["right"]},
                       "rtab": rtab.iter().map(|(id, fs)| json!({"id": id, "feats": fs})).collect::<Vec<_>>(),
                       "ltab": ltab.iter().map(|(id, fs)| json!({"id": id, "feats": fs})).collect::<Vec<_>>(),
                       "lines": lines.iter().map(|(w8, lt, rt)| json!({"w8": w8, "lt": lt, "rt": rt})).collect::<Vec<_>>(),
                       "factor": factor});
    let nr = rtab.iter().map(|x| x.0).max().unwrap_or(0) + 1;
    let nl = ltab.iter().map(|x| x.0).max().unwrap_or(0) + 1;
    MecabCase { d, fdef, rtext, ltext, mtext, factor, malformed, nr, nl }
}

pub fn record_mecab(a: &HashMap<String, String>) -> i32 {
    let seed: u64 = a.get("seed").and_then(|s| s.parse().ok()).unwrap_or(1);
    let n: usize = a.get("n").and_then(|s| s.parse().ok()).unwrap_or(100);
    let mut rng = Rng::new(seed ^ 0xC020);
    let mut f = open(a);
    for _ in 0..n {
        let c = gen_mecab_case(&mut rng);
        let (d, fdef, rtext, ltext, mtext, factor, malformed) = (c.d.clone(), c.fdef, c.rtext, c.ltext, c.mtext, c.factor, c.malformed);
        let r = catch_unwind(AssertUnwindSafe(|| {
            let (mut br, mut bl, mut bc) = (vec![], vec![], vec![]);
            vibrato::mecab::generate_bigram_info(fdef.as_bytes(), rtext.as_bytes(), ltext.as_bytes(), mtext.as_bytes(), factor as f64, &mut br, &mut bl, &mut bc)
                .map(|_| (br, bl, bc))
        }));
        let ev = match r {
            Ok(Ok((br, bl, bc))) => {
                let dict = vibrato::SystemDictionaryBuilder::from_readers_with_bigram_info(
                    "a,0,0,0,x\n".as_bytes(), br.as_slice(), bl.as_slice(), bc.as_slice(), "DEFAULT 0 1 0\n".as_bytes(), "DEFAULT,0,0,0,*\n".as_bytes(), false);
                match dict {
                    Ok(dict) => {
                        let (nr, nl) = (dict.verif_num_right(), dict.verif_num_left());
                        let mut costs = vec![];
                        for l in 0..nl {
                            for r in 0..nr {
                                costs.push(dict.verif_conn_cost(r as u16, l as u16));
                            }
                        }
                        json!({"ev": "mecab", "d": d, "malformed": malformed, "ok": true, "compiled": true, "nr": nr, "nl": nl, "costs": costs})
                    }
                    Err(e) => json!({"ev": "mecab", "d": d, "malformed": malformed, "ok": true, "compiled": false, "nr": 0, "nl": 0, "costs": [], "msg": e.to_string()}),
                }
            }
            Ok(Err(e)) => json!({"ev": "mecab", "d": d, "malformed": malformed, "ok": false, "compiled": false, "nr": 0, "nl": 0, "costs": [], "msg": e.to_string()}),
            Err(_) => json!({"ev": "panic", "op": {"op": "mecab"}, "d": d}),
        };
        writeln!(f, "{}", ev).unwrap();
    }
    0
}
