//! C09 / C05: dictionary images.  `truncate`: every (or a stratified set of) strict prefix of
//! real images is fed to Dictionary::read; outcomes are logged run-length encoded.
//! `image-write` / `image-sessions`: images written by one build are loaded by another
//! (portable vs AVX2) and exercised.
use std::collections::HashMap;
use std::io::Write;
use std::panic::{catch_unwind, AssertUnwindSafe};

use serde_json::{json, Value};
use vibrato::Dictionary;

use crate::adict::*;
use crate::dictops::*;
use crate::gen::*;
use crate::rng::Rng;

const MAGIC: &[u8] = b"VibratoTokenizer 0.5\n";

fn mark(what: &str) {
    crate::progress::note(what);
}

fn read_outcome(bytes: &[u8]) -> u8 {
    // 0 = Err, 1 = Ok, 2 = panic
    match catch_unwind(AssertUnwindSafe(|| Dictionary::read(bytes).is_ok())) {
        Ok(false) => 0,
        Ok(true) => 1,
        Err(_) => 2,
    }
}

/// A reader that hands out at most `chunk` bytes per call (short reads), as a pipe or a network
/// stream may do.
struct ChunkReader<'a> {
    data: &'a [u8],
    pos: usize,
    chunk: usize,
}

impl std::io::Read for ChunkReader<'_> {
    fn read(&mut self, buf: &mut [u8]) -> std::io::Result<usize> {
        let n = self.chunk.min(buf.len()).min(self.data.len() - self.pos);
        buf[..n].copy_from_slice(&self.data[self.pos..self.pos + n]);
        self.pos += n;
        Ok(n)
    }
}

fn read_outcome_chunked(bytes: &[u8], chunk: usize) -> u8 {
    match catch_unwind(AssertUnwindSafe(|| Dictionary::read(ChunkReader { data: bytes, pos: 0, chunk }).is_ok())) {
        Ok(false) => 0,
        Ok(true) => 1,
        Err(_) => 2,
    }
}

fn gen_image(rng: &mut Rng, kind: u8) -> (ADict, Vec<u8>, Value) {
    let cfg = GenCfg { conn_kind: kind, ..Default::default() };
    loop {
        let d = gen_dict(rng, &cfg);
        if let Ok(mut dict) = d.build() {
            let mut mapped = false;
            if rng.chance(1, 2) {
                dict = dict
                    .map_connection_ids_from_iter(gen_perm_list(rng, d.nl()).into_iter().map(|x| x as u16), gen_perm_list(rng, d.nr()).into_iter().map(|x| x as u16))
                    .expect("valid mapping");
                mapped = true;
            }
            let (_, bytes) = write_bytes(&dict);
            let info = json!({"kind": dict.verif_conn_kind(), "user": d.user.is_some(), "mapped": mapped, "len": bytes.len()});
            return (d, bytes, info);
        }
    }
}

pub fn truncate(a: &HashMap<String, String>) -> i32 {
    let seed: u64 = a.get("seed").and_then(|s| s.parse().ok()).unwrap_or(1);
    let n: usize = a.get("images").and_then(|s| s.parse().ok()).unwrap_or(3);
    let full = a.get("full").map(|s| s == "1").unwrap_or(false);
    let out = a.get("out").expect("--out");
    let mut rng = Rng::new(seed ^ 0x7C09);
    let mut f = std::io::BufWriter::new(std::fs::File::create(out).expect("create"));
    for i in 0..n {
        let kind = (i % 3) as u8;
        let (_d, bytes, info) = gen_image(&mut rng, kind);
        let len = bytes.len();
        // the complete image loads whatever the granularity of the reader
        mark(&format!("image={} len={} complete image, readers slice/3/7/4096", i, len));
        let full_ok = read_outcome(&bytes) == 1 && [3usize, 7, 4096].iter().all(|&c| read_outcome_chunked(&bytes, c) == 1);
        writeln!(f, "{}", json!({"ev": "image", "info": info, "len": len, "full_ok": full_ok})).unwrap();
        // offsets to try
        let mut offs: Vec<usize> = if full {
            (0..len).collect()
        } else {
            let mut v: Vec<usize> = (0..len.min(4096)).collect();
            v.extend((0..len).step_by(257));
            v.extend(len.saturating_sub(4096)..len);
            v.sort_unstable();
            v.dedup();
            v
        };
        offs.retain(|&k| k < len);
        // run-length encode outcomes
        let mut start = 0usize;
        let mut cnt = [0usize; 3];
        let mut first_bad: Option<usize> = None;
        let flush = |f: &mut std::io::BufWriter<std::fs::File>, from: usize, to: usize, cnt: &[usize; 3], fb: Option<usize>| {
            writeln!(f, "{}", json!({"ev": "prefixes", "from": from, "to": to, "n_err": cnt[0], "n_ok": cnt[1], "n_panic": cnt[2],
                                      "first_bad": fb.map(|x| x as i64).unwrap_or(-1), "len": len})).unwrap();
        };
        for (j, &k) in offs.iter().enumerate() {
            mark(&format!("image={} len={} prefix={} reader=slice", i, len, k));
            let mut o = read_outcome(&bytes[..k]);
            if o == 0 && j % 41 == 0 {
                // the same prefix through a reader that delivers short reads
                mark(&format!("image={} len={} prefix={} reader=chunks-of-{}", i, len, k, 5 + j % 7));
                o = read_outcome_chunked(&bytes[..k], 5 + j % 7);
            }
            cnt[o as usize] += 1;
            if o != 0 && first_bad.is_none() {
                first_bad = Some(k);
            }
            if (j + 1) % 20000 == 0 || j + 1 == offs.len() {
                flush(&mut f, start, k, &cnt, first_bad);
                start = k + 1;
                cnt = [0; 3];
                first_bad = None;
            }
        }
        // magic variants: every proper prefix of the magic, single-byte changes, an older version
        let mut variants: Vec<Vec<u8>> = vec![];
        // every single-byte substitution of the magic (21 positions x 255 values); the body stays intact
        let head_len = (MAGIC.len() + 64).min(bytes.len());
        let mut head_variants: Vec<(usize, u8)> = vec![];
        for k in 0..MAGIC.len() {
            for b in 0..=255u8 {
                if b != bytes[k] {
                    head_variants.push((k, b));
                }
            }
        }
        let _ = head_len;
        let mut old = bytes.clone();
        old[..MAGIC.len()].copy_from_slice(b"VibratoTokenizer 0.4\n");
        variants.push(old);
        variants.push(bytes[MAGIC.len()..].to_vec()); // no magic at all
        let mut lower = bytes.clone();
        lower[0] = b'v';
        variants.push(lower);
        let mut vc = [0usize; 3];
        for (vi, v) in variants.iter().enumerate() {
            mark(&format!("image={} len={} header-variant={}", i, len, vi));
            vc[read_outcome(v) as usize] += 1;
        }
        let mut scratch = bytes.clone();
        let mut first_accepted: i64 = -1;
        for (k, b) in &head_variants {
            let old = scratch[*k];
            scratch[*k] = *b;
            mark(&format!("image={} len={} magic-byte={} value={}", i, len, k, b));
            let o = read_outcome(&scratch);
            if o != 0 && first_accepted < 0 {
                first_accepted = (*k as i64) * 256 + *b as i64;
            }
            vc[o as usize] += 1;
            scratch[*k] = old;
        }
        writeln!(f, "{}", json!({"ev": "magic", "n": variants.len() + head_variants.len(), "n_err": vc[0], "n_ok": vc[1], "n_panic": vc[2], "first_accepted": first_accepted})).unwrap();
    }
    0
}

/// Writes `n` images plus their dictionary-session inputs into a directory.
pub fn image_write(a: &HashMap<String, String>) -> i32 {
    let seed: u64 = a.get("seed").and_then(|s| s.parse().ok()).unwrap_or(1);
    let n: usize = a.get("images").and_then(|s| s.parse().ok()).unwrap_or(6);
    let dir = a.get("dir").expect("--dir");
    std::fs::create_dir_all(dir).unwrap();
    let mut rng = Rng::new(seed ^ 0x1A6E);
    let mut idx = std::io::BufWriter::new(std::fs::File::create(format!("{dir}/index.ndjson")).unwrap());
    for i in 0..n {
        let kind = (i % 3) as u8;
        let cfg = GenCfg { conn_kind: kind, allow_user: false, ..Default::default() };
        let d = gen_dict(&mut rng, &cfg);
        let dict = match d.build_system() {
            Ok(x) => x,
            Err(_) => continue,
        };
        let (_, bytes) = write_bytes(&dict);
        std::fs::write(format!("{dir}/img{i}.bin"), &bytes).unwrap();
        let mut dd = d.clone();
        dd.user = None;
        let probes: Vec<Vec<u32>> = (0..4).map(|_| gen_sentence(&mut rng, &dd, 10)).collect();
        let steps = vec![DStep::User(Some(gen_user_rows(&mut rng, &d, false))),
                         DStep::Map { ll: gen_perm_list(&mut rng, d.nl()), rl: gen_perm_list(&mut rng, d.nr()) }];
        let ds = DictSession { d, isp: false, mgl: 0, steps, probes };
        writeln!(idx, "{}", json!({"i": i, "hash": fnv31(&bytes), "len": bytes.len(), "avx2": cfg!(target_feature = "avx2"), "session": ds.to_json()})).unwrap();
    }
    0
}

/// Loads the images of a directory (written by any build) and runs each one's session on the
/// LOADED dictionary: projection, probes, then the later operations.
pub fn image_sessions(a: &HashMap<String, String>) -> i32 {
    let dir = a.get("dir").expect("--dir");
    let out = a.get("out").expect("--out");
    let text = std::fs::read_to_string(format!("{dir}/index.ndjson")).expect("index");
    let mut evs: Vec<Value> = vec![];
    for line in text.lines().filter(|l| !l.trim().is_empty()) {
        let v: Value = serde_json::from_str(line).unwrap();
        let i = v["i"].as_u64().unwrap();
        let ds = DictSession::from_json(&v["session"]);
        let bytes = std::fs::read(format!("{dir}/img{i}.bin")).unwrap();
        run_loaded_session(&ds, &bytes, v["hash"].as_u64().unwrap() as u32, &mut evs);
    }
    let mut f = std::io::BufWriter::new(std::fs::File::create(out).expect("create"));
    for e in &evs {
        writeln!(f, "{}", e).unwrap();
    }
    0
}
