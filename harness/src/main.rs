mod adict;
mod cli;
mod cli_corpus;
mod connrec;
mod image;
mod parsecases;
mod dictops;
mod gen;
mod proj;
mod progress;
mod rng;
mod sessions;
mod train;
mod trainer_cases;

use std::collections::HashMap;

pub fn args_map() -> (String, HashMap<String, String>) {
    let mut it = std::env::args().skip(1);
    let cmd = it.next().unwrap_or_default();
    let mut m = HashMap::new();
    let rest: Vec<String> = it.collect();
    let mut i = 0;
    while i < rest.len() {
        if let Some(k) = rest[i].strip_prefix("--") {
            let v = rest.get(i + 1).cloned().unwrap_or_default();
            m.insert(k.to_string(), v);
            i += 2;
        } else {
            i += 1;
        }
    }
    (cmd, m)
}

fn main() {
    // a panic in the code under test is data: keep the default hook quiet
    if std::env::var("VH_PANIC").is_err() {
        std::panic::set_hook(Box::new(|_| {}));
    }
    let (cmd, a) = args_map();
    progress::init(a.get("progress"));
    let code = match cmd.as_str() {
        "record-sessions" => sessions::record(&a),
        "replay-sessions" => sessions::replay(&a),
        "stress" => sessions::stress(&a),
        "record-bigsent" => sessions::record_bigsent(&a),
        "record-longlife" => sessions::record_longlife(&a),
        "record-conn" => connrec::record(&a),
        "replay-conn" => connrec::replay(&a),
        "truncate" => image::truncate(&a),
        "image-write" => image::image_write(&a),
        "image-sessions" => image::image_sessions(&a),
        "parse-cases" => parsecases::parse_cases(&a),
        "fuzz-build" => parsecases::fuzz_build(&a),
        "record-lex" => parsecases::record_lex(&a),
        "rewrite-cases" => trainer_cases::rewrite_cases(&a),
        "record-rewrite" => trainer_cases::record_rewrite(&a),
        "expand-cases" => trainer_cases::expand_cases(&a),
        "record-expand" => trainer_cases::record_expand(&a),
        "record-fsets" => trainer_cases::record_fsets(&a),
        "corpus-cases" => trainer_cases::corpus_cases(&a),
        "record-corpus" => trainer_cases::record_corpus(&a),
        "record-mecab-lines" => trainer_cases::record_mecab_lines(&a),
        "record-train" => train::record(&a),
        "replay-train" => train::replay(&a),
        "record-trainlat" => train::record_lat(&a),
        "cli-train" => train::cli_train(&a),
        "record-mecab" => trainer_cases::record_mecab(&a),
        "cli-pipeline" => cli::pipeline(&a),
        "cli-histories" => cli::histories(&a),
        "cli-corpus" => cli_corpus::run(&a),
        "cli-eval" => cli_corpus::run_eval(&a),
        "cli-mecab" => cli::mecab(&a),
        "record-dict" => dictops::record(&a),
        "replay-dict" => dictops::replay(&a),
        _ => {
            eprintln!("unknown command {cmd:?}");
            2
        }
    };
    if let Some(tool) = progress::tool_timed_out() {
        eprintln!("a tool under test did not terminate: {tool}");
        println!("TOOL-HANG {tool}");
        std::process::exit(progress::TOOL_HANG_EXIT);
    }
    std::process::exit(code);
}
