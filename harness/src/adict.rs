//! Abstract dictionaries: the data the specification talks about, their rendering to
//! vibrato's definition files, and their JSON form for the trace.
use serde_json::{json, Value};
use vibrato::{Dictionary, SystemDictionaryBuilder};

#[derive(Clone, Debug)]
pub struct ACat {
    pub name: String,
    pub invoke: u8,
    pub group: u8,
    pub length: u32,
}

#[derive(Clone, Debug)]
pub struct ARange {
    pub lo: u32,
    pub hi: u32,
    pub cs: Vec<usize>, // category ids, first = primary
}

#[derive(Clone, Debug)]
pub struct AWord {
    pub s: Vec<u32>,
    pub l: u32,
    pub r: u32,
    pub c: i32,
    pub f: String,
}

#[derive(Clone, Debug)]
pub struct AUnk {
    pub cat: usize,
    pub l: u32,
    pub r: u32,
    pub c: i32,
    pub f: String,
}

#[derive(Clone, Debug)]
pub struct ABigram {
    pub right: Vec<Vec<String>>, // rows of ids 1..
    pub left: Vec<Vec<String>>,
    pub cost: Vec<(String, String, i32)>, // (right feature, left feature, cost)
}

#[derive(Clone, Debug)]
pub enum AConn {
    Matrix { nr: usize, nl: usize, mat: Vec<i32> }, // cell (r,l) at l*nr + r
    Bigram { dual: bool, model: ABigram },
}

#[derive(Clone, Debug)]
pub struct ADict {
    pub cats: Vec<ACat>, // index = category id; 0 = DEFAULT
    pub default_line_pos: usize, // where the DEFAULT line is written among the category lines
    pub ranges: Vec<ARange>,
    pub lex: Vec<AWord>,
    pub user: Option<Vec<AWord>>,
    pub unk: Vec<AUnk>, // file order
    pub conn: AConn,
    pub iso: bool, // generator's claim: the precondition of C12 holds (informational)
}

pub fn cps_to_string(s: &[u32]) -> String {
    s.iter().map(|&c| char::from_u32(c).unwrap()).collect()
}

pub fn string_to_cps(s: &str) -> Vec<u32> {
    s.chars().map(|c| c as u32).collect()
}

/// CSV-quotes a cell when needed.
pub fn csv_cell(s: &str) -> String {
    if s.contains(',') || s.contains('"') || s.contains('\n') || s.contains('\r') || s.is_empty() && false {
        format!("\"{}\"", s.replace('"', "\"\""))
    } else {
        s.to_string()
    }
}

impl ADict {
    pub fn nr(&self) -> usize {
        match &self.conn {
            AConn::Matrix { nr, .. } => *nr,
            AConn::Bigram { model, .. } => model.right.len() + 1,
        }
    }
    pub fn nl(&self) -> usize {
        match &self.conn {
            AConn::Matrix { nl, .. } => *nl,
            AConn::Bigram { model, .. } => model.left.len() + 1,
        }
    }
    pub fn space_cat(&self) -> i64 {
        self.cats.iter().position(|c| c.name == "SPACE").map(|i| i as i64).unwrap_or(-1)
    }

    /// The text of char.def.  The WRITING STYLE varies from dictionary to dictionary (it is derived
    /// from the content, so that every rendering of one dictionary is the same text): hexadecimal
    /// digits in upper or lower case, zero-padded to 4 or 5 digits or not at all; blanks, tabs or
    /// double blanks between the columns; trailing comments on category lines (as ipadic's char.def
    /// has them); blank and comment lines in between.
    pub fn render_char_def(&self) -> String {
        let mut h: u32 = 2166136261;
        for r in &self.ranges {
            for x in [r.lo, r.hi, r.cs.len() as u32] {
                h = (h ^ x).wrapping_mul(16777619);
            }
        }
        for c in &self.cats {
            h = (h ^ (c.length + 2 * c.group as u32 + 4 * c.invoke as u32)).wrapping_mul(16777619);
        }
        let hex = |v: u32| -> String {
            match h % 3 {
                0 => format!("0x{:04X}", v),
                1 => format!("0x{:x}", v),
                _ => format!("0x{:05X}", v),
            }
        };
        let sep = ["\x20", "\t", "\x20\x20"][((h / 3) % 3) as usize];
        let cat_comment = (h / 9) % 2 == 1;
        let spacer = (h / 18) % 2 == 1;
        let mut out = String::new();
        // category ids are assigned by first appearance, DEFAULT is always 0
        let line = |name: &str, i: u8, g: u8, l: u32| -> String {
            let mut s = [name.to_string(), i.to_string(), g.to_string(), l.to_string()].join(sep);
            if cat_comment {
                s.push_str("  # a category");
            }
            s
        };
        let mut lines: Vec<String> = self.cats[1..].iter().map(|c| line(&c.name, c.invoke, c.group, c.length)).collect();
        let d = &self.cats[0];
        let pos = self.default_line_pos.min(lines.len());
        lines.insert(pos, line("DEFAULT", d.invoke, d.group, d.length));
        for (k, l) in lines.iter().enumerate() {
            out.push_str(l);
            out.push('\n');
            if spacer && k == 0 {
                out.push_str("\n#   a comment line, then a blank one\n\n");
            }
        }
        out.push_str("# ranges\n");
        for r in &self.ranges {
            let names: Vec<&str> = r.cs.iter().map(|&i| self.cats[i].name.as_str()).collect();
            if r.lo == r.hi {
                out.push_str(&format!("{}{}{}\n", hex(r.lo), sep, names.join(sep)));
            } else {
                out.push_str(&format!("{}..{}{}{} # c\n", hex(r.lo), hex(r.hi), sep, names.join(sep)));
            }
        }
        out
    }

    pub fn render_lex(words: &[AWord]) -> String {
        let mut out = String::new();
        for w in words {
            out.push_str(&format!("{},{},{},{},{}\n", csv_cell(&cps_to_string(&w.s)), w.l, w.r, w.c, w.f));
        }
        out
    }

    pub fn render_unk(&self) -> String {
        let mut out = String::new();
        for u in &self.unk {
            out.push_str(&format!("{},{},{},{},{}\n", self.cats[u.cat].name, u.l, u.r, u.c, u.f));
        }
        out
    }

    pub fn render_matrix(nr: usize, nl: usize, mat: &[i32]) -> String {
        let mut out = format!("{} {}\n", nr, nl);
        for r in 0..nr {
            for l in 0..nl {
                out.push_str(&format!("{} {} {}\n", r, l, mat[l * nr + r]));
            }
        }
        out
    }

    pub fn render_bigram(m: &ABigram) -> (String, String, String) {
        let row = |fs: &Vec<String>| fs.iter().map(|f| csv_cell(f)).collect::<Vec<_>>().join(",");
        let mut right = String::new();
        for (i, fs) in m.right.iter().enumerate() {
            right.push_str(&format!("{}\t{}\n", i + 1, row(fs)));
        }
        let mut left = String::new();
        for (i, fs) in m.left.iter().enumerate() {
            left.push_str(&format!("{}\t{}\n", i + 1, row(fs)));
        }
        let mut cost = String::new();
        for (rf, lf, c) in &m.cost {
            cost.push_str(&format!("{}/{}\t{}\n", rf, lf, c));
        }
        (right, left, cost)
    }

    /// Builds the real dictionary (system part + optional user lexicon).
    pub fn build(&self) -> vibrato::errors::Result<Dictionary> {
        let dict = self.build_system()?;
        match &self.user {
            Some(u) => dict.reset_user_lexicon_from_reader(Some(Self::render_lex(u).as_bytes())),
            None => Ok(dict),
        }
    }

    /// Builds the system part only.
    pub fn build_system(&self) -> vibrato::errors::Result<Dictionary> {
        let lex = Self::render_lex(&self.lex);
        let chr = self.render_char_def();
        let unk = self.render_unk();
        let dict = match &self.conn {
            AConn::Matrix { nr, nl, mat } => {
                let m = Self::render_matrix(*nr, *nl, mat);
                SystemDictionaryBuilder::from_readers(lex.as_bytes(), m.as_bytes(), chr.as_bytes(), unk.as_bytes())?
            }
            AConn::Bigram { dual, model } => {
                let (r, l, c) = Self::render_bigram(model);
                SystemDictionaryBuilder::from_readers_with_bigram_info(
                    lex.as_bytes(),
                    r.as_bytes(),
                    l.as_bytes(),
                    c.as_bytes(),
                    chr.as_bytes(),
                    unk.as_bytes(),
                    *dual,
                )?
            }
        };
        Ok(dict)
    }

    fn words_json(ws: &[AWord]) -> Value {
        Value::Array(
            ws.iter()
                .map(|w| json!({"s": w.s, "l": w.l, "r": w.r, "c": w.c, "f": w.f}))
                .collect(),
        )
    }

    /// JSON form consumed by the TLA+ trace specifications (record `D`).
    pub fn to_json(&self) -> Value {
        let mut d = json!({
            "cats": self.cats.iter().map(|c| json!({"invoke": c.invoke, "group": c.group, "length": c.length})).collect::<Vec<_>>(),
            "space": self.space_cat(),
            "ranges": self.ranges.iter().map(|r| json!({"lo": r.lo, "hi": r.hi, "cs": r.cs})).collect::<Vec<_>>(),
            "lex": Self::words_json(&self.lex),
            "user": Self::words_json(self.user.as_deref().unwrap_or(&[])),
            "unk": self.unk.iter().map(|u| json!({"cat": u.cat, "l": u.l, "r": u.r, "c": u.c, "f": u.f})).collect::<Vec<_>>(),
        });
        match &self.conn {
            AConn::Matrix { nr, nl, mat } => {
                d["nr"] = json!(nr);
                d["nl"] = json!(nl);
                d["mat"] = json!(mat);
            }
            AConn::Bigram { model, .. } => {
                d["bg"] = bigram_json(model);
            }
        }
        d
    }
}

impl ADict {
    /// Full JSON form (with category names and rendering details) used in replay inputs.
    pub fn to_json_full(&self) -> Value {
        let mut d = self.to_json();
        d["names"] = json!(self.cats.iter().map(|c| c.name.clone()).collect::<Vec<_>>());
        d["dpos"] = json!(self.default_line_pos);
        d["has_user"] = json!(self.user.is_some());
        d["iso"] = json!(self.iso);
        if let AConn::Bigram { dual, .. } = &self.conn {
            d["dual"] = json!(dual);
        }
        d
    }

    /// Inverse of `to_json` / `to_json_full`; TLC-generated dictionaries have no names.
    pub fn from_json(v: &Value) -> ADict {
        let u = |x: &Value| x.as_u64().unwrap_or(0);
        let i = |x: &Value| x.as_i64().unwrap_or(0);
        let space = i(&v["space"]);
        let ncat = v["cats"].as_array().map(|a| a.len()).unwrap_or(1);
        let names: Vec<String> = match v["names"].as_array() {
            Some(a) => a.iter().map(|s| s.as_str().unwrap().to_string()).collect(),
            None => (0..ncat)
                .map(|k| if k == 0 { "DEFAULT".to_string() } else if k as i64 == space { "SPACE".to_string() } else { format!("C{k}") })
                .collect(),
        };
        let cats = v["cats"].as_array().unwrap().iter().zip(names).map(|(c, name)| ACat {
            name, invoke: u(&c["invoke"]) as u8, group: u(&c["group"]) as u8, length: u(&c["length"]) as u32,
        }).collect();
        let ranges = v["ranges"].as_array().map(|a| a.iter().map(|r| ARange {
            lo: u(&r["lo"]) as u32, hi: u(&r["hi"]) as u32,
            cs: r["cs"].as_array().unwrap().iter().map(|c| u(c) as usize).collect(),
        }).collect()).unwrap_or_default();
        let words = |x: &Value| -> Vec<AWord> {
            x.as_array().map(|a| a.iter().map(|w| AWord {
                s: w["s"].as_array().map(|s| s.iter().map(|c| u(c) as u32).collect()).unwrap_or_default(),
                l: u(&w["l"]) as u32, r: u(&w["r"]) as u32, c: i(&w["c"]) as i32,
                f: w["f"].as_str().unwrap_or("").to_string(),
            }).collect()).unwrap_or_default()
        };
        let lex = words(&v["lex"]);
        let uw = words(&v["user"]);
        let has_user = v["has_user"].as_bool().unwrap_or(!uw.is_empty());
        let unk = v["unk"].as_array().map(|a| a.iter().map(|e| AUnk {
            cat: u(&e["cat"]) as usize, l: u(&e["l"]) as u32, r: u(&e["r"]) as u32, c: i(&e["c"]) as i32,
            f: e["f"].as_str().unwrap_or("").to_string(),
        }).collect()).unwrap_or_default();
        let strs = |x: &Value| -> Vec<Vec<String>> {
            x.as_array().map(|a| a.iter().map(|r| r.as_array().map(|c| c.iter().map(|s| s.as_str().unwrap_or("").to_string()).collect()).unwrap_or_default()).collect()).unwrap_or_default()
        };
        let conn = if v.get("bg").is_some() {
            let b = &v["bg"];
            AConn::Bigram {
                dual: v["dual"].as_bool().unwrap_or(false),
                model: ABigram {
                    right: strs(&b["R"]), left: strs(&b["L"]),
                    cost: b["cost"].as_array().map(|a| a.iter().map(|c| (c["rf"].as_str().unwrap_or("").to_string(), c["lf"].as_str().unwrap_or("").to_string(), i(&c["c"]) as i32)).collect()).unwrap_or_default(),
                },
            }
        } else {
            AConn::Matrix {
                nr: u(&v["nr"]) as usize, nl: u(&v["nl"]) as usize,
                mat: v["mat"].as_array().map(|a| a.iter().map(|c| i(c) as i32).collect()).unwrap_or_default(),
            }
        };
        ADict { cats, default_line_pos: u(&v["dpos"]) as usize, ranges, lex, user: if has_user { Some(uw) } else { None }, unk, conn, iso: v["iso"].as_bool().unwrap_or(false) }
    }
}

pub fn bigram_json(m: &ABigram) -> Value {
    json!({
        "R": m.right,
        "L": m.left,
        "cost": m.cost.iter().map(|(rf, lf, c)| json!({"rf": rf, "lf": lf, "c": c})).collect::<Vec<_>>(),
    })
}
