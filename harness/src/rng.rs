//! Small deterministic PRNG (SplitMix64) so that runs are reproducible from VERIF_SEED.
#[derive(Clone)]
pub struct Rng(pub u64);

impl Rng {
    pub fn new(seed: u64) -> Self {
        Rng(seed.wrapping_mul(0x9E3779B97F4A7C15).wrapping_add(0x1234_5678_9ABC_DEF1))
    }
    pub fn next_u64(&mut self) -> u64 {
        self.0 = self.0.wrapping_add(0x9E3779B97F4A7C15);
        let mut z = self.0;
        z = (z ^ (z >> 30)).wrapping_mul(0xBF58476D1CE4E5B9);
        z = (z ^ (z >> 27)).wrapping_mul(0x94D049BB133111EB);
        z ^ (z >> 31)
    }
    /// uniform in 0..n (n > 0)
    pub fn below(&mut self, n: usize) -> usize {
        (self.next_u64() % (n as u64)) as usize
    }
    /// uniform in lo..=hi
    pub fn range(&mut self, lo: i64, hi: i64) -> i64 {
        lo + (self.next_u64() % ((hi - lo + 1) as u64)) as i64
    }
    pub fn chance(&mut self, num: u32, den: u32) -> bool {
        (self.next_u64() % den as u64) < num as u64
    }
    pub fn pick<'a, T>(&mut self, xs: &'a [T]) -> &'a T {
        &xs[self.below(xs.len())]
    }
    pub fn shuffle<T>(&mut self, xs: &mut [T]) {
        for i in (1..xs.len()).rev() {
            let j = self.below(i + 1);
            xs.swap(i, j);
        }
    }
    pub fn fork(&mut self) -> Rng {
        Rng(self.next_u64())
    }
}
