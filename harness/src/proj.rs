//! Projection of vibrato's observable state onto the specification's vocabulary.
use serde_json::{json, Value};
use vibrato::tokenizer::worker::Worker;
use vibrato::dictionary::LexType;

pub fn lt_num(t: LexType) -> u8 {
    match t {
        LexType::System => 0,
        LexType::User => 1,
        LexType::Unknown => 2,
    }
}

/// Tokens as the public API reports them.
pub fn tokens_json(w: &Worker) -> Value {
    let mut v = vec![];
    for i in 0..w.num_tokens() {
        let t = w.token(i);
        let rc = t.range_char();
        let rb = t.range_byte();
        v.push(json!({
            "b": rc.start, "e": rc.end, "bb": rb.start, "be": rb.end,
            "surf": t.surface().chars().map(|c| c as u32).collect::<Vec<_>>(),
            "lt": lt_num(t.lex_type()), "id": t.word_idx().word_id,
            "l": t.left_id(), "r": t.right_id(), "c": t.word_cost(), "tot": t.total_cost(),
            "f": t.feature(),
        }));
    }
    Value::Array(v)
}

/// Lattice snapshot (hook H1), boundaries 0..=len only.
pub fn lattice_json(w: &Worker) -> Value {
    let lat = w.verif_lattice();
    let dict = w_dict(w);
    let node = |n: &vibrato::verif::VerifNode, bos: bool| -> Value {
        if bos {
            json!({"sn": -1, "sw": -1, "lt": 0, "id": -1, "l": n.left_id, "r": n.right_id, "c": 0, "mi": n.min_idx, "mc": n.min_cost})
        } else {
            let (_, _, c) = dict.verif_word_param(vibrato::verif::word_idx(n.lex_type, n.word_id));
            json!({"sn": n.start_node, "sw": n.start_word, "lt": n.lex_type, "id": n.word_id,
                   "l": n.left_id, "r": n.right_id, "c": c, "mi": n.min_idx, "mc": n.min_cost})
        }
    };
    let mut ends = vec![];
    for (b, v) in lat.ends.iter().enumerate() {
        if b > lat.len_char {
            break;
        }
        ends.push(Value::Array(v.iter().map(|n| node(n, b == 0)).collect()));
    }
    let stale: usize = lat.ends.iter().skip(lat.len_char + 1).map(|v| v.len()).sum();
    let eos = match lat.eos.as_ref() {
        Some(e) => json!({"sn": e.start_node, "mi": e.min_idx, "mc": e.min_cost}),
        None => json!({"sn": -1, "mi": -1, "mc": 0}),
    };
    json!({"len": lat.len_char, "ends": ends, "eos": eos, "stale": stale})
}

fn w_dict<'a>(w: &'a Worker) -> &'a vibrato::Dictionary {
    // the tokenizer is reachable only through tokens; use the hook on Worker
    w.verif_dictionary()
}
