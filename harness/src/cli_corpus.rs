//! tokenize -O mecab -> corpus -> split / evaluate (the closure stated in C19).
use std::collections::HashMap;
use std::io::Write;
use std::process::{Command, Stdio};

use serde_json::{json, Value};

use crate::adict::*;
use crate::gen::*;
use crate::rng::Rng;

fn lines_of(text: &str) -> Vec<Vec<String>> {
    text.lines().map(|l| l.split('\t').map(|p| p.to_string()).collect()).collect()
}

fn run_out(bin: &str, args: &[String], stdin: &str) -> (bool, String) {
    let (ok, out, _) = run_full(bin, args, stdin);
    (ok, out)
}

fn run_full(bin: &str, args: &[String], stdin: &str) -> (bool, String, String) {
    let mut cmd = Command::new(bin);
    cmd.args(args);
    let (ok, out, err) = crate::progress::run_tool(cmd, Some(stdin));
    let tail: String = err.lines().rev().take(3).collect::<Vec<_>>().join(" | ");
    (ok, out, tail)
}

pub fn run(a: &HashMap<String, String>) -> i32 {
    let seed: u64 = a.get("seed").and_then(|s| s.parse().ok()).unwrap_or(1);
    let n: usize = a.get("n").and_then(|s| s.parse().ok()).unwrap_or(10);
    let bins = a.get("bins").expect("--bins");
    let tmp = a.get("tmp").expect("--tmp");
    let out = a.get("out").expect("--out");
    let bin = |b: &str| format!("{bins}/{b}");
    let mut rng = Rng::new(seed ^ 0xC0C9);
    let mut evs: Vec<Value> = vec![];
    let mut done = 0;
    while done < n {
        let cfg = GenCfg { conn_kind: 0, allow_user: false, ..Default::default() };
        let d = gen_dict(&mut rng, &cfg);
        let dir = format!("{tmp}/c{done}");
        std::fs::create_dir_all(&dir).unwrap();
        let p = |f: &str| format!("{dir}/{f}");
        std::fs::write(p("lex.csv"), ADict::render_lex(&d.lex)).unwrap();
        std::fs::write(p("char.def"), d.render_char_def()).unwrap();
        std::fs::write(p("unk.def"), d.render_unk()).unwrap();
        if let AConn::Matrix { nr, nl, mat } = &d.conn {
            std::fs::write(p("matrix.def"), ADict::render_matrix(*nr, *nl, mat)).unwrap();
        }
        let (ok, _) = run_out(&bin("compile"), &["-l".into(), p("lex.csv"), "-m".into(), p("matrix.def"), "-c".into(), p("char.def"), "-u".into(), p("unk.def"), "-o".into(), p("dic.zst")], "");
        if !ok {
            continue;
        }
        done += 1;
        let nsent = 2 + rng.below(10);
        let sents: Vec<Vec<u32>> = (0..nsent).map(|_| gen_sentence(&mut rng, &d, 8)).map(|s| s.into_iter().filter(|&c| c != 0x0A && c != 0x0D && c != 0x09).collect()).collect();
        let stdin: String = sents.iter().map(|s| cps_to_string(s) + "\n").collect();
        let (ok_tok, corpus) = run_out(&bin("tokenize"), &["-i".into(), p("dic.zst"), "-O".into(), "mecab".into()], &stdin);
        std::fs::write(p("corpus.txt"), &corpus).unwrap();
        // ratios that are exact in binary floating point: k/8
        let (vr, tr) = *rng.pick(&[(1u32, 1u32), (2, 1), (0, 4), (4, 4), (3, 0), (0, 0)]);
        let (ok_split, _) = run_out(&bin("split"), &["-i".into(), p("corpus.txt"), "-t".into(), p("train.txt"), "-v".into(), p("valid.txt"), "-e".into(), p("test.txt"),
                                                   "--valid-ratio".into(), format!("{}", vr as f64 / 8.0), "--test-ratio".into(), format!("{}", tr as f64 / 8.0)], "");
        let rd = |f: &str| std::fs::read_to_string(p(f)).unwrap_or_default();
        let (ok_eval, evalout, evalerr) = run_full(&bin("evaluate"), &["-t".into(), p("corpus.txt"), "-i".into(), p("dic.zst")], "");
        let metric = |name: &str| -> String { evalout.lines().find_map(|l| l.strip_prefix(&format!("{name} = ")).map(|x| x.trim().to_string())).unwrap_or_default() };
        evs.push(json!({"ev": "clicorpus", "tok_ok": ok_tok, "lines": lines_of(&corpus), "vr8": vr, "tr8": tr, "split_ok": ok_split,
                        "train": lines_of(&rd("train.txt")), "valid": lines_of(&rd("valid.txt")), "test": lines_of(&rd("test.txt")),
                        "eval_ok": ok_eval, "eval_err": if ok_eval { String::new() } else { evalerr }, "precision": metric("Precision"), "recall": metric("Recall"), "f1": metric("F1")}));
        let _ = std::fs::remove_dir_all(&dir);
    }
    let mut f = std::io::BufWriter::new(std::fs::File::create(out).expect("create"));
    for e in &evs {
        writeln!(f, "{}", e).unwrap();
    }
    0
}
