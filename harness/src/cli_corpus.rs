//! tokenize -O mecab -> corpus -> split / evaluate (the closure stated in C19).
use std::collections::HashMap;
use std::io::Write;
use std::process::{Command, Stdio};

use serde_json::{json, Value};

use crate::adict::*;
use crate::gen::*;
use crate::rng::Rng;

fn lines_of(text: &str) -> Vec<Vec<String>> {
    text.lines().map(|l| l.split('\t').map(|p| p.to_string()).collect()).collect()
}

fn run_out(bin: &str, args: &[String], stdin: &str) -> (bool, String) {
    let (ok, out, _) = run_full(bin, args, stdin);
    (ok, out)
}

fn run_full(bin: &str, args: &[String], stdin: &str) -> (bool, String, String) {
    let mut cmd = Command::new(bin);
    cmd.args(args);
    let (ok, out, err) = crate::progress::run_tool(cmd, Some(stdin));
    let tail: String = err.lines().rev().take(3).collect::<Vec<_>>().join(" | ");
    (ok, out, tail)
}

pub fn run(a: &HashMap<String, String>) -> i32 {
    let seed: u64 = a.get("seed").and_then(|s| s.parse().ok()).unwrap_or(1);
    let n: usize = a.get("n").and_then(|s| s.parse().ok()).unwrap_or(10);
    let bins = a.get("bins").expect("--bins");
    let tmp = a.get("tmp").expect("--tmp");
    let out = a.get("out").expect("--out");
    let bin = |b: &str| format!("{bins}/{b}");
    let mut rng = Rng::new(seed ^ 0xC0C9);
    let mut evs: Vec<Value> = vec![];
    let mut done = 0;
    while done < n {
        let cfg = GenCfg { conn_kind: 0, allow_user: false, ..Default::default() };
        let d = gen_dict(&mut rng, &cfg);
        let dir = format!("{tmp}/c{done}");
        std::fs::create_dir_all(&dir).unwrap();
        let p = |f: &str| format!("{dir}/{f}");
        std::fs::write(p("lex.csv"), ADict::render_lex(&d.lex)).unwrap();
        std::fs::write(p("char.def"), d.render_char_def()).unwrap();
        std::fs::write(p("unk.def"), d.render_unk()).unwrap();
        if let AConn::Matrix { nr, nl, mat } = &d.conn {
            std::fs::write(p("matrix.def"), ADict::render_matrix(*nr, *nl, mat)).unwrap();
        }
        let (ok, _) = run_out(&bin("compile"), &["-l".into(), p("lex.csv"), "-m".into(), p("matrix.def"), "-c".into(), p("char.def"), "-u".into(), p("unk.def"), "-o".into(), p("dic.zst")], "");
        if !ok {
            continue;
        }
        done += 1;
        let nsent = 2 + rng.below(10);
        let sents: Vec<Vec<u32>> = (0..nsent).map(|_| gen_sentence(&mut rng, &d, 8)).map(|s| s.into_iter().filter(|&c| c != 0x0A && c != 0x0D && c != 0x09).collect()).collect();
        let stdin: String = sents.iter().map(|s| cps_to_string(s) + "\n").collect();
        let (ok_tok, corpus) = run_out(&bin("tokenize"), &["-i".into(), p("dic.zst"), "-O".into(), "mecab".into()], &stdin);
        std::fs::write(p("corpus.txt"), &corpus).unwrap();
        // ratios that are exact in binary floating point: k/8
        let (vr, tr) = *rng.pick(&[(1u32, 1u32), (2, 1), (0, 4), (4, 4), (3, 0), (0, 0)]);
        let (ok_split, _) = run_out(&bin("split"), &["-i".into(), p("corpus.txt"), "-t".into(), p("train.txt"), "-v".into(), p("valid.txt"), "-e".into(), p("test.txt"),
                                                   "--valid-ratio".into(), format!("{}", vr as f64 / 8.0), "--test-ratio".into(), format!("{}", tr as f64 / 8.0)], "");
        let rd = |f: &str| std::fs::read_to_string(p(f)).unwrap_or_default();
        let (ok_eval, evalout, evalerr) = run_full(&bin("evaluate"), &["-t".into(), p("corpus.txt"), "-i".into(), p("dic.zst")], "");
        let metric = |name: &str| -> String { evalout.lines().find_map(|l| l.strip_prefix(&format!("{name} = ")).map(|x| x.trim().to_string())).unwrap_or_default() };
        evs.push(json!({"ev": "clicorpus", "tok_ok": ok_tok, "lines": lines_of(&corpus), "vr8": vr, "tr8": tr, "split_ok": ok_split,
                        "train": lines_of(&rd("train.txt")), "valid": lines_of(&rd("valid.txt")), "test": lines_of(&rd("test.txt")),
                        "eval_ok": ok_eval, "eval_err": if ok_eval { String::new() } else { evalerr }, "precision": metric("Precision"), "recall": metric("Recall"), "f1": metric("F1")}));
        let _ = std::fs::remove_dir_all(&dir);
    }
    let mut f = std::io::BufWriter::new(std::fs::File::create(out).expect("create"));
    for e in &evs {
        writeln!(f, "{}", e).unwrap();
    }
    0
}

// ------------------------------------------------------------------ the evaluate tool (extended coverage)

/// Best rational approximation p/q of x in [0, 1] with q <= maxden (continued fractions).
fn to_fraction(x: f64, maxden: u64) -> (u64, u64) {
    if !(x.is_finite()) {
        return (0, 0);
    }
    let (mut p0, mut q0, mut p1, mut q1) = (0u64, 1u64, 1u64, 0u64);
    let mut r = x;
    for _ in 0..64 {
        let a = r.floor();
        let (p2, q2) = (a as u64 * p1 + p0, a as u64 * q1 + q0);
        if q2 > maxden {
            break;
        }
        p0 = p1; q0 = q1; p1 = p2; q1 = q2;
        let frac = r - a;
        if frac.abs() < 1e-12 {
            break;
        }
        r = 1.0 / frac;
    }
    (p1, q1)
}

/// `evaluate` on a reference corpus that differs from the tokenizer's own output in known ways:
/// the printed precision / recall / F1 are recovered as fractions and compared in TLA+ (VEval)
/// with the counts derived from the reference and the system tokens.
pub fn run_eval(a: &HashMap<String, String>) -> i32 {
    let seed: u64 = a.get("seed").and_then(|s| s.parse().ok()).unwrap_or(1);
    let n: usize = a.get("n").and_then(|s| s.parse().ok()).unwrap_or(10);
    let bins = a.get("bins").expect("--bins");
    let tmp = a.get("tmp").expect("--tmp");
    let out = a.get("out").expect("--out");
    let bin = |b: &str| format!("{bins}/{b}");
    let mut rng = Rng::new(seed ^ 0xE7A1);
    let mut evs: Vec<Value> = vec![];
    let mut done = 0;
    while done < n {
        let cfg = GenCfg { conn_kind: 0, allow_user: false, ..Default::default() };
        let d = gen_dict(&mut rng, &cfg);
        let dir = format!("{tmp}/e{done}");
        std::fs::create_dir_all(&dir).unwrap();
        let p = |f: &str| format!("{dir}/{f}");
        std::fs::write(p("lex.csv"), ADict::render_lex(&d.lex)).unwrap();
        std::fs::write(p("char.def"), d.render_char_def()).unwrap();
        std::fs::write(p("unk.def"), d.render_unk()).unwrap();
        if let AConn::Matrix { nr, nl, mat } = &d.conn {
            std::fs::write(p("matrix.def"), ADict::render_matrix(*nr, *nl, mat)).unwrap();
        }
        let (ok, _) = run_out(&bin("compile"), &["-l".into(), p("lex.csv"), "-m".into(), p("matrix.def"), "-c".into(), p("char.def"), "-u".into(), p("unk.def"), "-o".into(), p("dic.zst")], "");
        if !ok {
            continue;
        }
        let mgl = *rng.pick(&[0usize, 0, 2]);
        let nsent = 2 + rng.below(8);
        let sents: Vec<Vec<u32>> = (0..nsent).map(|_| gen_sentence(&mut rng, &d, 8)).map(|s| s.into_iter().filter(|&c| c != 0x0A && c != 0x0D && c != 0x09).collect::<Vec<u32>>()).filter(|s: &Vec<u32>| !s.is_empty()).collect();
        if sents.is_empty() {
            continue;
        }
        let stdin: String = sents.iter().map(|s| cps_to_string(s) + "\n").collect();
        let mut targs: Vec<String> = vec!["-i".into(), p("dic.zst"), "-O".into(), "mecab".into()];
        if mgl != 0 {
            targs.extend(["-M".into(), mgl.to_string()]);
        }
        let (ok_tok, corpus) = run_out(&bin("tokenize"), &targs, &stdin);
        if !ok_tok {
            evs.push(json!({"ev": "cli_err", "tool": "tokenize"}));
            continue;
        }
        done += 1;
        // the system side: the tokenizer's sentences as (surface, feature) lists
        let mut sys: Vec<Vec<(String, String)>> = vec![];
        let mut cur = vec![];
        for l in corpus.lines() {
            if l == "EOS" {
                sys.push(std::mem::take(&mut cur));
            } else if let Some((s, f)) = l.split_once('\t') {
                cur.push((s.to_string(), f.to_string()));
            }
        }
        // the reference: the same sentences with tokens merged, split or re-labelled
        let mut reference: Vec<Vec<(String, String)>> = vec![];
        for ex in &sys {
            let mut r: Vec<(String, String)> = vec![];
            let mut i = 0;
            while i < ex.len() {
                match rng.below(6) {
                    0 if i + 1 < ex.len() => {
                        r.push((format!("{}{}", ex[i].0, ex[i + 1].0), ex[i].1.clone()));
                        i += 2;
                        continue;
                    }
                    1 if ex[i].0.chars().count() >= 2 => {
                        let cs: Vec<char> = ex[i].0.chars().collect();
                        r.push((cs[..1].iter().collect(), ex[i].1.clone()));
                        r.push((cs[1..].iter().collect(), ex[i].1.clone()));
                    }
                    2 => r.push((ex[i].0.clone(), format!("zz,{}", ex[i].1))),
                    3 => r.push((ex[i].0.clone(), "\"q,r\",other".to_string())),
                    _ => r.push(ex[i].clone()),
                }
                i += 1;
            }
            reference.push(r);
        }
        let mut text = String::new();
        for ex in &reference {
            for (s, f) in ex {
                text.push_str(&format!("{s}\t{f}\n"));
            }
            text.push_str("EOS\n");
        }
        std::fs::write(p("ref.txt"), &text).unwrap();
        let idx: Vec<usize> = match rng.below(4) {
            0 => vec![0],
            1 => vec![1, 0],
            2 => vec![5],
            _ => vec![],
        };
        let mut eargs: Vec<String> = vec!["-t".into(), p("ref.txt"), "-i".into(), p("dic.zst")];
        if mgl != 0 {
            eargs.extend(["-M".into(), mgl.to_string()]);
        }
        if !idx.is_empty() {
            eargs.push("--feature-indices".into());
            eargs.push(idx.iter().map(|i| i.to_string()).collect::<Vec<_>>().join(","));
        }
        let (ok_eval, evalout, evalerr) = run_full(&bin("evaluate"), &eargs, "");
        let metric = |name: &str| -> String { evalout.lines().find_map(|l| l.strip_prefix(&format!("{name} = ")).map(|x| x.trim().to_string())).unwrap_or_default() };
        let frac = |s: &str| -> Value {
            match s.parse::<f64>() {
                Ok(x) if x.is_finite() => { let (p, q) = to_fraction(x, 4000); json!([p, q]) }
                _ => json!([0, 0]),
            }
        };
        let toks = |exs: &Vec<Vec<(String, String)>>| -> Value {
            Value::Array(exs.iter().map(|ex| Value::Array(ex.iter().map(|(s, f)| json!({"n": s.chars().count(), "f": string_to_cps(f)})).collect())).collect())
        };
        evs.push(json!({"ev": "clieval", "ok": ok_eval, "err": if ok_eval { String::new() } else { evalerr }, "idx": idx, "ref": toks(&reference), "sys": toks(&sys),
                        "prec": frac(&metric("Precision")), "rec": frac(&metric("Recall")), "f1": frac(&metric("F1")), "f1nan": metric("F1") == "NaN",
                        "printed": [metric("Precision"), metric("Recall"), metric("F1")]}));
        let _ = std::fs::remove_dir_all(&dir);
    }
    let mut f = std::io::BufWriter::new(std::fs::File::create(out).expect("create"));
    for e in &evs {
        writeln!(f, "{}", e).unwrap();
    }
    0
}
