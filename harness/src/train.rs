//! C14 C15 C16 C18: training sessions.  Tiny randomised training configurations are trained
//! with the real trainer, the CRF weights are quantised to integers (hook H6) so that the
//! cost scaling is exact, and every artefact the model generates is logged in the
//! specification's vocabulary: the abstract model, the compiled projection of the emitted
//! files (which also shows that they compile), the bigram files, and a history of
//! write_model / read_model / read_user_lexicon steps executed on the in-memory model and
//! on reloaded copies.
use std::collections::HashMap;
use std::io::Write;
use std::panic::{catch_unwind, AssertUnwindSafe};

use serde_json::{json, Value};
use vibrato::trainer::{Corpus, Model, Trainer, TrainerConfig};
use vibrato::SystemDictionaryBuilder;

use crate::adict::*;
use crate::dictops::{fnv31, project};
use crate::gen::LETTERS;
use crate::rng::Rng;
use crate::trainer_cases::{feature_def, gen_templates};

pub fn cells_text(cells: &[String]) -> String {
    cells.iter().map(|c| csv_cell(c)).collect::<Vec<_>>().join(",")
}

fn rule_text(r: &Value) -> String {
    let pat: Vec<String> = r["pat"].as_array().unwrap().iter().map(|p| match p["k"].as_str().unwrap() {
        "any" => "*".to_string(),
        "lit" => p["v"].as_str().unwrap().to_string(),
        _ => format!("({})", p["v"].as_array().unwrap().iter().map(|x| x.as_str().unwrap()).collect::<Vec<_>>().join("|")),
    }).collect();
    let out: Vec<String> = r["out"].as_array().unwrap().iter().map(|c| match c["k"].as_str().unwrap() {
        "ref" => format!("${}", c["i"].as_u64().unwrap()),
        _ => c["v"].as_str().unwrap().to_string(),
    }).collect();
    format!("{}\t{}", pat.join(","), out.join(","))
}

pub fn rewrite_def3(rules: &Value) -> String {
    let mut s = String::new();
    for (name, key) in [("[unigram rewrite]", "uni"), ("[left rewrite]", "left"), ("[right rewrite]", "right")] {
        s.push_str(name);
        s.push('\n');
        for r in rules[key].as_array().unwrap() {
            s.push_str(&rule_text(r));
            s.push('\n');
        }
    }
    s
}

/// Splits a CSV row into unquoted cells (quoted cells with "" escapes) - used only to read the
/// bigram.left/right rows back.
fn split_csv(row: &str) -> Vec<String> {
    let mut out = vec![];
    let mut cur = String::new();
    let mut chars = row.chars().peekable();
    let mut quoted = false;
    let mut at_start = true;
    while let Some(c) = chars.next() {
        if quoted {
            if c == '"' {
                if chars.peek() == Some(&'"') {
                    cur.push('"');
                    chars.next();
                } else {
                    quoted = false;
                }
            } else {
                cur.push(c);
            }
        } else if c == '"' && at_start {
            quoted = true;
            at_start = false;
        } else if c == ',' {
            out.push(std::mem::take(&mut cur));
            at_start = true;
        } else {
            cur.push(c);
            at_start = false;
        }
    }
    out.push(cur);
    out
}

struct TrainIn {
    cats: Vec<ACat>,
    ranges: Vec<ARange>,
    seed: Vec<(Vec<u32>, Vec<String>)>,
    unk: Vec<(usize, Vec<String>)>,
    templates: Value,
    rules: Value,
    corpus: Vec<Vec<(Vec<u32>, Vec<String>)>>,
    user: Vec<(Vec<u32>, u32, u32, i32, Vec<String>)>,
    max_iter: u64,
    reg: f64,
}

impl TrainIn {
    fn adict_shell(&self) -> ADict {
        ADict { cats: self.cats.clone(), default_line_pos: 0, ranges: self.ranges.clone(), lex: vec![], user: None, unk: vec![],
                conn: AConn::Matrix { nr: 1, nl: 1, mat: vec![0] }, iso: false }
    }
    fn lex_text(&self) -> String {
        self.seed.iter().map(|(s, c)| format!("{},0,0,0,{}\n", csv_cell(&cps_to_string(s)), cells_text(c))).collect()
    }
    fn unk_text(&self) -> String {
        self.unk.iter().map(|(cat, c)| format!("{},0,0,0,{}\n", self.cats[*cat].name, cells_text(c))).collect()
    }
    fn corpus_text(&self) -> String {
        let mut s = String::new();
        for sent in &self.corpus {
            for (surf, cells) in sent {
                s.push_str(&format!("{}\t{}\n", cps_to_string(surf), cells_text(cells)));
            }
            s.push_str("EOS\n");
        }
        s
    }
    fn user_text(&self, rows: &[(Vec<u32>, u32, u32, i32, Vec<String>)]) -> String {
        rows.iter().map(|(s, l, r, c, cells)| format!("{},{},{},{},{}\n", csv_cell(&cps_to_string(s)), l, r, c, cells_text(cells))).collect()
    }
    fn to_json(&self) -> Value {
        json!({
            "cats": self.cats.iter().map(|c| json!({"invoke": c.invoke, "group": c.group, "length": c.length})).collect::<Vec<_>>(),
            "ranges": self.ranges.iter().map(|r| json!({"lo": r.lo, "hi": r.hi, "cs": r.cs})).collect::<Vec<_>>(),
            "seed": self.seed.iter().map(|(s, c)| json!({"s": s, "cells": c, "ftext": cells_text(c)})).collect::<Vec<_>>(),
            "unk": self.unk.iter().map(|(cat, c)| json!({"cat": cat, "cells": c, "ftext": cells_text(c)})).collect::<Vec<_>>(),
            "T": self.templates, "rules": self.rules,
            "user": self.user.iter().map(|(s, l, r, c, cells)| json!({"s": s, "l": l, "r": r, "c": c, "cells": cells, "ftext": cells_text(cells)})).collect::<Vec<_>>(),
            "ncorpus": self.corpus.len(),
            "corpus": self.corpus.iter().map(|sent| sent.iter().map(|(s, c)| json!({"s": s, "cells": c})).collect::<Vec<_>>()).collect::<Vec<_>>(),
            "max_iter": self.max_iter,
            "reg1000": (self.reg * 1000.0) as i64,
            "names": self.cats.iter().map(|c| c.name.clone()).collect::<Vec<_>>(),
        })
    }
}

impl TrainIn {
    fn from_json(v: &Value) -> TrainIn {
        let u = |x: &Value| x.as_u64().unwrap_or(0);
        let cps = |x: &Value| -> Vec<u32> { x.as_array().map(|a| a.iter().map(|c| c.as_u64().unwrap() as u32).collect()).unwrap_or_default() };
        let cells = |x: &Value| -> Vec<String> { x.as_array().map(|a| a.iter().map(|c| c.as_str().unwrap_or("").to_string()).collect()).unwrap_or_default() };
        let names: Vec<String> = v["names"].as_array().map(|a| a.iter().map(|s| s.as_str().unwrap().to_string()).collect()).unwrap_or_default();
        TrainIn {
            cats: v["cats"].as_array().unwrap().iter().enumerate().map(|(i, c)| ACat {
                name: names.get(i).cloned().unwrap_or_else(|| if i == 0 { "DEFAULT".into() } else { format!("C{i}") }),
                invoke: u(&c["invoke"]) as u8, group: u(&c["group"]) as u8, length: u(&c["length"]) as u32 }).collect(),
            ranges: v["ranges"].as_array().unwrap().iter().map(|r| ARange { lo: u(&r["lo"]) as u32, hi: u(&r["hi"]) as u32, cs: r["cs"].as_array().unwrap().iter().map(|c| u(c) as usize).collect() }).collect(),
            seed: v["seed"].as_array().unwrap().iter().map(|r| (cps(&r["s"]), cells(&r["cells"]))).collect(),
            unk: v["unk"].as_array().unwrap().iter().map(|r| (u(&r["cat"]) as usize, cells(&r["cells"]))).collect(),
            templates: v["T"].clone(),
            rules: v["rules"].clone(),
            corpus: v["corpus"].as_array().unwrap().iter().map(|s| s.as_array().unwrap().iter().map(|t| (cps(&t["s"]), cells(&t["cells"]))).collect()).collect(),
            user: v["user"].as_array().unwrap().iter().map(|r| (cps(&r["s"]), u(&r["l"]) as u32, u(&r["r"]) as u32, r["c"].as_i64().unwrap_or(0) as i32, cells(&r["cells"]))).collect(),
            max_iter: v["max_iter"].as_u64().unwrap_or(5),
            reg: v["reg1000"].as_i64().unwrap_or(10) as f64 / 1000.0,
        }
    }
}

/// Replays training inputs: {"in": <TrainIn>, "hist": [...], "randw": <seed or -1>} per line.
pub fn replay(a: &HashMap<String, String>) -> i32 {
    let text = std::fs::read_to_string(a.get("in").expect("--in")).expect("read");
    let out = a.get("out").expect("--out");
    let mut evs = vec![];
    for line in text.lines().filter(|l| !l.trim().is_empty()) {
        let v: Value = serde_json::from_str(line).expect("json");
        let ti = TrainIn::from_json(&v["in"]);
        let hist: Vec<u8> = v["hist"].as_array().unwrap().iter().map(|x| x.as_u64().unwrap() as u8).collect();
        let rw = v["randw"].as_i64().filter(|x| *x >= 0).map(|x| x as u64);
        let pat: Option<Vec<i64>> = v["wpat"].as_array().map(|a| a.iter().map(|x| x.as_i64().unwrap_or(0)).collect());
        run_training_pat(&ti, &hist, &mut evs, rw, pat.as_deref());
    }
    let mut f = std::io::BufWriter::new(std::fs::File::create(out).expect("create"));
    for e in &evs {
        writeln!(f, "{}", e).unwrap();
    }
    0
}

fn gen_cells(rng: &mut Rng) -> Vec<String> {
    // (values ending in white space: the ideographic-space entry of ipadic has U+3000 as its base form)
    let vals = ["N", "V", "*", "名詞", "q,r", "x", "y", "y ", "\u{3000}"];
    // mostly 1-3 cells; one row in eight has 11-13 (templates may name two-digit columns)
    let n = if rng.chance(1, 8) { 11 + rng.below(3) } else { 1 + rng.below(3) };
    // one cell in sixteen is empty (an empty string is a feature value like any other)
    (0..n).map(|_| if rng.chance(1, 16) { String::new() } else { rng.pick(&vals).to_string() }).collect()
}

pub fn gen_rules(rng: &mut Rng) -> Value {
    let vals = ["N", "V", "名詞", "x"];
    let mut mk = |rng: &mut Rng| -> Vec<Value> {
        (0..rng.below(3)).map(|k| {
            let len = 1 + rng.below(2);
            let pat: Vec<Value> = (0..len).map(|_| match rng.below(3) {
                0 => json!({"k": "any"}),
                1 => json!({"k": "alt", "v": [rng.pick(&vals), "y"]}),
                _ => json!({"k": "lit", "v": rng.pick(&vals)}),
            }).collect();
            let out: Vec<Value> = vec![json!({"k": "ref", "i": 1 + rng.below(2)}), if rng.chance(1, 2) { json!({"k": "text", "v": format!("W{k}")}) } else { json!({"k": "ref", "i": 2 + rng.below(2)}) }];
            json!({"pat": pat, "out": out})
        }).collect()
    };
    json!({"uni": mk(rng), "left": mk(rng), "right": mk(rng)})
}

fn gen_train_in(rng: &mut Rng, bare_refs: bool) -> TrainIn {
    let cats = vec![
        ACat { name: "DEFAULT".into(), invoke: rng.below(2) as u8, group: 1, length: rng.below(3) as u32 },
        ACat { name: "ALPHA".into(), invoke: 1, group: rng.below(2) as u8, length: 1 + rng.below(2) as u32 },
    ];
    let ranges = vec![ARange { lo: 0x61, hi: 0x63, cs: vec![1] }];
    let nseed = 2 + rng.below(6);
    let mut seed: Vec<(Vec<u32>, Vec<String>)> = vec![];
    for _ in 0..nseed {
        let len = 1 + rng.below(3);
        // surfaces that need CSV quoting when written back: a quote, a comma
        // characters that need CSV quoting when written back: a quote, a comma, a line feed, a carriage return
        let s: Vec<u32> = (0..len).map(|_| if rng.chance(1, 8) { *rng.pick(&[0x22u32, 0x2C, 0x0A, 0x0D]) } else { *rng.pick(&LETTERS[..6]) }).collect();
        seed.push((s, gen_cells(rng)));
    }
    if rng.chance(1, 2) {
        // two rows with the same features (they must share their connection classes)
        let c = seed[0].1.clone();
        seed.push((vec![0x62, 0x61], c.clone()));
        if rng.chance(1, 2) {
            // ... and one more whose first character lies in the other category (ALPHA above, DEFAULT here):
            // same feature string, different %t, so a different unigram feature set
            seed.push((vec![0x6771, 0x61], c));
        }
    }
    let mut unk = vec![];
    for cat in 0..cats.len() {
        for _ in 0..(1 + rng.below(2)) {
            unk.push((cat, gen_cells(rng)));
        }
    }
    rng.shuffle(&mut unk);
    let nsent = 2 + rng.below(6);
    let mut corpus = vec![];
    for _ in 0..nsent {
        let ntok = 1 + rng.below(4);
        let mut sent = vec![];
        for _ in 0..ntok {
            match rng.below(6) {
                0 => {
                    // a word absent from the lexicon (unknown-compatible or a virtual edge)
                    let len = 1 + rng.below(2);
                    sent.push(((0..len).map(|_| *rng.pick(&[0x61u32, 0x7A, 0x3042])).collect(), gen_cells(rng)));
                }
                _ => {
                    // (the corpus format is line based: words whose surface holds a line break stay out of it)
                    let ok: Vec<&(Vec<u32>, Vec<String>)> = seed.iter().filter(|w| !w.0.contains(&0x0A) && !w.0.contains(&0x0D)).collect();
                    if let Some(w) = ok.get(rng.below(ok.len().max(1))) {
                        sent.push((*w).clone());
                    }
                }
            }
        }
        if sent.is_empty() {
            sent.push((vec![0x61], vec!["N".to_string()]));
        }
        corpus.push(sent);
    }
    let mut user = vec![];
    if rng.chance(1, 2) {
        for _ in 0..(1 + rng.below(3)) {
            let len = 1 + rng.below(3);
            let s: Vec<u32> = (0..len).map(|_| *rng.pick(&LETTERS[..6])).collect();
            let (l, r, c) = if rng.chance(1, 2) { (0, 0, 0) } else { (rng.below(2) as u32, rng.below(2) as u32, rng.range(-50, 50) as i32) };
            user.push((s, l, r, c, gen_cells(rng)));
        }
    }
    if !user.is_empty() && rng.chance(1, 2) {
        // a user row with the features of a seed row, to be trained: it must receive that row's classes
        let len = 1 + rng.below(3);
        let s: Vec<u32> = (0..len).map(|_| *rng.pick(&LETTERS[..6])).collect();
        let c = rng.pick(&seed).1.clone();
        user.push((s, 0, 0, 0, c.clone()));
        if rng.chance(1, 2) {
            // ... and a second row with the SAME features whose surface starts in the other category
            // (0x61..0x63 are ALPHA, the other letters DEFAULT): %t differs, so does the feature set
            user.push((vec![0x61, 0x62], 0, 0, 0, c.clone()));
            user.push((vec![0x6771], 0, 0, 0, c));
        }
    }
    let same = rng.chance(1, 4);
    let mut templates = gen_templates(rng, same);
    if rng.chance(1, 6) {
        // more than 8 bigram templates: the connectors keep 8 feature ids per SIMD vector, so the 9th
        // and later templates live in a second vector (raw) / in the pre-summed matrix part (dual)
        let want = 9 + rng.below(3);
        let mut k = templates["left"].as_array().unwrap().len();
        while k < want {
            let l = crate::trainer_cases::gen_template(rng, &format!("B{k}:"), false);
            let r = crate::trainer_cases::gen_template(rng, &format!("B{k}:"), false);
            templates["left"].as_array_mut().unwrap().push(l);
            templates["right"].as_array_mut().unwrap().push(r);
            k += 1;
        }
    }
    if bare_refs && rng.chance(1, 2) {
        // a bigram template whose sides are single references: its expansion can be exactly "*"
        // (the placeholder of absent / pruned features) - the input class of known finding F21
        let i = rng.below(2);
        templates["left"][0] = json!([{"k": "ref", "i": i}]);
        templates["right"][0] = json!([{"k": "ref", "i": i}]);
    }
    TrainIn { cats, ranges, seed, unk, templates, rules: gen_rules(rng), corpus, user, max_iter: 3 + rng.below(8) as u64, reg: 0.01 }
}

fn model_json(m: &Model) -> Value {
    let raw = m.verif_raw();
    let (u, l, r) = m.verif_feature_maps();
    let (nseed, nunk, nuser) = m.verif_counts();
    let tab = |v: &Vec<(String, u32)>| -> Value { Value::Array(v.iter().map(|(s, i)| json!({"s": s, "id": i})).collect()) };
    json!({
        "W": raw.weights.iter().map(|w| *w as i64).collect::<Vec<_>>(),
        "uwi": raw.unigram_weight_indices.iter().map(|x| x.map_or(0, |y| y.get())).collect::<Vec<_>>(),
        "bwi": raw.bigram_weight_indices.iter().map(|v| { let mut v = v.clone(); v.sort(); v.iter().map(|(a, b)| json!([a, b])).collect::<Vec<_>>() }).collect::<Vec<_>>(),
        "fs": raw.feature_sets.iter().map(|f| json!({
            "u": f.unigram.iter().map(|x| x.get()).collect::<Vec<_>>(),
            "r": f.bigram_right.iter().map(|x| x.map_or(0, |y| y.get())).collect::<Vec<_>>(),
            "l": f.bigram_left.iter().map(|x| x.map_or(0, |y| y.get())).collect::<Vec<_>>()})).collect::<Vec<_>>(),
        "nseed": nseed, "nunk": nunk, "nuser": nuser, "userlabels": m.verif_user_labels(),
        "umap": tab(&u), "lmap": tab(&l), "rmap": tab(&r),
    })
}

/// Runs write_dictionary and write_bigram_details and describes the results.
fn gen_event(ti: &TrainIn, m: &mut Model, who: &str) -> Value {
    // the two exporters in either order (every other call writes the bigram details first: nothing
    // documents an order, and a model fresh from train / read_model / read_user_lexicon must serve both)
    static CALLS: std::sync::atomic::AtomicUsize = std::sync::atomic::AtomicUsize::new(0);
    let details_first = CALLS.fetch_add(1, std::sync::atomic::Ordering::Relaxed) % 2 == 1;
    let (mut lex, mut mat, mut unk, mut usr) = (vec![], vec![], vec![], vec![]);
    let (mut bl, mut br, mut bc) = (vec![], vec![], vec![]);
    if details_first {
        if let Err(e) = m.write_bigram_details(&mut bl, &mut br, &mut bc) {
            return json!({"ev": "gen_err", "who": who, "msg": e.to_string()});
        }
    }
    if let Err(e) = m.write_dictionary(&mut lex, &mut mat, &mut unk, &mut usr) {
        return json!({"ev": "gen_err", "who": who, "msg": e.to_string()});
    }
    if !details_first {
        if let Err(e) = m.write_bigram_details(&mut bl, &mut br, &mut bc) {
            return json!({"ev": "gen_err", "who": who, "msg": e.to_string()});
        }
    }
    let chr = ti.adict_shell().render_char_def();
    // the emitted files must compile; what they say is read off the compiled dictionary
    let compiled = SystemDictionaryBuilder::from_readers(lex.as_slice(), mat.as_slice(), chr.as_bytes(), unk.as_slice())
        .and_then(|d| if usr.is_empty() { Ok(d) } else { d.reset_user_lexicon_from_reader(Some(usr.as_slice())) });
    let proj = match &compiled {
        Ok(d) => project(d),
        Err(e) => json!({"error": e.to_string()}),
    };
    // surfaces: the i-th emitted row is found (as system word i) when its seed surface is tokenized
    let mut surf_ok: Vec<bool> = vec![];
    if let Ok(d) = compiled_for_probe(&lex, &mat, &chr, &unk) {
        let tok = vibrato::Tokenizer::new(d);
        let mut w = tok.new_worker();
        for (i, (s, _)) in ti.seed.iter().enumerate() {
            w.reset_sentence(cps_to_string(s));
            w.tokenize();
            let lat = w.verif_lattice();
            surf_ok.push(lat.ends.get(s.len()).map_or(false, |v| v.iter().any(|n| n.lex_type == 0 && n.start_word == 0 && n.word_id == i as u32)));
        }
    }
    let mut cost_lines: Vec<String> = String::from_utf8_lossy(&bc).lines().map(|s| s.to_string()).collect();
    cost_lines.sort();
    let rows = |b: &Vec<u8>| -> Vec<Vec<String>> {
        String::from_utf8_lossy(b).lines().map(|l| split_csv(l.split_once('\t').map_or("", |x| x.1))).collect()
    };
    let bg = json!({
        "R": rows(&br), "L": rows(&bl),
        "cost": cost_lines.iter().map(|l| { let (p, c) = l.rsplit_once('\t').unwrap_or((l, "0")); let (rf, lf) = p.split_once('/').unwrap_or((p, "")); json!({"rf": rf, "lf": lf, "c": c.parse::<i64>().unwrap_or(0)}) }).collect::<Vec<_>>(),
    });
    // the small dictionary: raw and dual connectors compiled from the bigram files
    let mut small = json!({});
    for (name, dual) in [("raw", false), ("dual", true)] {
        let d = SystemDictionaryBuilder::from_readers_with_bigram_info(lex.as_slice(), br.as_slice(), bl.as_slice(), bc.as_slice(), chr.as_bytes(), unk.as_slice(), dual);
        small[name] = match d {
            Ok(d) => {
                let p = project(&d);
                // the small dictionary with its ids reordered (what the `map` tool does to any dictionary):
                // left ids reversed, right ids rotated by one; costs are read back through the renaming
                let (nr, nl) = (d.verif_num_right(), d.verif_num_left());
                let ll: Vec<u16> = (1..nl as u16).rev().collect();
                let rl: Vec<u16> = (1..nr as u16).map(|k| if k + 1 < nr as u16 { k + 1 } else { 1 }).collect();
                let (mut newl, mut newr) = (vec![0u16; nl], vec![0u16; nr]);
                for (k, &o) in ll.iter().enumerate() { newl[o as usize] = k as u16 + 1; }
                for (k, &o) in rl.iter().enumerate() { newr[o as usize] = k as u16 + 1; }
                let mapped: Value = match catch_unwind(AssertUnwindSafe(|| d.map_connection_ids_from_iter(ll.iter().copied(), rl.iter().copied()))) {
                    Ok(Ok(dm)) => {
                        let mut m = Vec::with_capacity(nr * nl);
                        for l in 0..nl {
                            for r in 0..nr {
                                m.push(dm.verif_conn_cost(newr[r], newl[l]));
                            }
                        }
                        json!(m)
                    }
                    Ok(Err(e)) => json!({"error": e.to_string()}),
                    Err(_) => json!({"error": "panic"}),
                };
                json!({"nr": p["nr"], "nl": p["nl"], "mat": p["mat"], "mapped": mapped})
            }
            Err(e) => json!({"error": e.to_string()}),
        };
    }
    let hashes = json!({"lex": fnv31(&lex), "matrix": fnv31(&mat), "unk": fnv31(&unk), "user": fnv31(&usr), "left": fnv31(&bl), "right": fnv31(&br),
                        "cost": fnv31(cost_lines.join("\n").as_bytes())});
    json!({"ev": "gen", "who": who, "compiled": compiled.is_ok(), "proj": proj, "bg": bg, "small": small, "hashes": hashes, "surf_ok": surf_ok,
           "lex_surfaces": String::from_utf8_lossy(&lex).lines().count()})
}

fn compiled_for_probe(lex: &[u8], mat: &[u8], chr: &str, unk: &[u8]) -> vibrato::errors::Result<vibrato::Dictionary> {
    SystemDictionaryBuilder::from_readers(lex, mat, chr.as_bytes(), unk)
}

/// Replaces the trained weights by random integers in [-1000, 1000] (same structure): strong
/// cancellations between templates, single weights larger than every merged weight, zeros.
fn randomise_weights(m: &mut Model, rng: &mut Rng) {
    let mut raw = m.verif_raw();
    for w in raw.weights.iter_mut() {
        *w = match rng.below(8) {
            0 => 0.0,
            1 => 1000.0,
            2 => -1000.0,
            _ => rng.range(-1000, 1000) as f64,
        };
    }
    m.verif_set_raw(&raw);
}

/// Sets every bigram weight by the position of its template: an entry (a, b) of the bigram weight
/// table belongs to the template whose tag `B<k>:` starts the name of feature a (of b for the
/// BOS side) and gets the weight pat[k]; unigram weights become 0.  Used by deterministic probes.
fn pattern_weights(m: &mut Model, pat: &[i64]) {
    let mut raw = m.verif_raw();
    let (_, l, r) = m.verif_feature_maps();
    let tag = |names: &Vec<(String, u32)>, id: u32| -> Option<usize> {
        let n = &names.iter().find(|(_, i)| *i == id)?.0;
        let rest = n.strip_prefix('B')?;
        rest.split(':').next()?.parse().ok()
    };
    for w in raw.weights.iter_mut() {
        *w = 0.0;
    }
    for (a, row) in raw.bigram_weight_indices.clone().iter().enumerate() {
        for (b, widx) in row {
            let k = if a != 0 { tag(&l, a as u32) } else { tag(&r, *b) };
            if let Some(k) = k {
                raw.weights[*widx as usize] = pat[k % pat.len()] as f64;
            }
        }
    }
    m.verif_set_raw(&raw);
}

fn quantise(m: &mut Model) {
    let mut raw = m.verif_raw();
    let maxabs = raw.weights.iter().fold(0f64, |a, w| a.max(w.abs()));
    for w in raw.weights.iter_mut() {
        *w = if maxabs > 0.0 { (*w / maxabs * 1000.0).round() } else { 0.0 };
    }
    m.verif_set_raw(&raw);
}

fn reload(m: &Model) -> Option<Model> {
    let mut buf = vec![];
    m.write_model(&mut buf).ok()?;
    Model::read_model(buf.as_slice()).ok()
}

fn run_training(ti: &TrainIn, hist: &[u8], out: &mut Vec<Value>, randw: Option<u64>) {
    run_training_pat(ti, hist, out, randw, None)
}

fn run_training_pat(ti: &TrainIn, hist: &[u8], out: &mut Vec<Value>, randw: Option<u64>, wpat: Option<&[i64]>) {
    // events are pushed as they happen, so that what preceded a panic stays in the trace
    let r = catch_unwind(AssertUnwindSafe(|| -> Result<(), String> {
        let log = &mut *out;
        let shell = ti.adict_shell();
        let cfg = TrainerConfig::from_readers(ti.lex_text().as_bytes(), shell.render_char_def().as_bytes(), ti.unk_text().as_bytes(),
                                              feature_def(&ti.templates).as_bytes(), rewrite_def3(&ti.rules).as_bytes()).map_err(|e| e.to_string())?;
        let trainer = Trainer::new(cfg).map_err(|e| e.to_string())?.regularization_cost(ti.reg).max_iter(ti.max_iter).num_threads(1);
        let corpus = Corpus::from_reader(ti.corpus_text().as_bytes()).map_err(|e| e.to_string())?;
        let mut model = trainer.train(corpus).map_err(|e| e.to_string())?;
        quantise(&mut model);
        if let Some(sd) = randw {
            randomise_weights(&mut model, &mut Rng::new(sd));
        }
        if let Some(pat) = wpat {
            pattern_weights(&mut model, pat);
        }
        log.push(json!({"ev": "tsession", "in": ti.to_json(), "hist": hist, "randw": randw.map(|x| x as i64).unwrap_or(-1)}));
        log.push(json!({"ev": "model", "m": model_json(&model)}));
        // the history: 0 = generate, 1 = write;read (continue on the reloaded copy), 2 = add the user lexicon
        let mut mem = model;
        let mut disk: Option<Model> = None;
        for &op in hist {
            match op {
                0 => {
                    let e = gen_event(ti, &mut mem, "mem");
                    log.push(e);
                    if let Some(d) = disk.as_mut() {
                        let e = gen_event(ti, d, "disk");
                        log.push(e);
                    }
                }
                1 => {
                    disk = reload(disk.as_ref().unwrap_or(&mem));
                    log.push(json!({"ev": "wr", "ok": disk.is_some()}));
                }
                _ => {
                    if !ti.user.is_empty() {
                        let txt = ti.user_text(&ti.user);
                        let a = mem.read_user_lexicon(txt.as_bytes()).is_ok();
                        let b = disk.as_mut().map(|d| d.read_user_lexicon(txt.as_bytes()).is_ok());
                        log.push(json!({"ev": "adduser", "rows": ti.to_json()["user"], "ok": a, "disk_ok": b.unwrap_or(true), "has_disk": b.is_some()}));
                        log.push(json!({"ev": "model", "m": model_json(&mem)}));
                    }
                }
            }
        }
        Ok(())
    }));
    match r {
        Ok(Ok(())) => {}
        Ok(Err(e)) => out.push(json!({"ev": "train_err", "msg": e})),
        Err(e) => {
            let msg = if let Some(s) = e.downcast_ref::<String>() { s.clone() } else if let Some(s) = e.downcast_ref::<&str>() { s.to_string() } else { "panic".into() };
            out.push(json!({"ev": "panic", "op": {"op": "train"}, "msg": msg}))
        }
    }
}

pub fn record(a: &HashMap<String, String>) -> i32 {
    let seed: u64 = a.get("seed").and_then(|s| s.parse().ok()).unwrap_or(1);
    let n: usize = a.get("n").and_then(|s| s.parse().ok()).unwrap_or(10);
    let out = a.get("out").expect("--out");
    let bare = a.get("bare").map(|s| s == "1").unwrap_or(false);
    let randw = a.get("randw").map(|s| s == "1").unwrap_or(true);
    let mut rng = Rng::new(seed ^ 0x7A14);
    let mut evs = vec![];
    let mut hists: Vec<Vec<u8>> = vec![vec![0, 1, 0, 2, 0], vec![0, 0, 2, 0, 1, 0], vec![2, 0, 1, 0, 0], vec![1, 0, 2, 0, 1, 2, 0]];
    if let Some(p) = a.get("hists") {
        // TLC-generated histories: {"hist": [0,1,2,...]} per line
        let text = std::fs::read_to_string(p).expect("hists");
        hists = text.lines().filter(|l| !l.trim().is_empty()).map(|l| {
            let v: Value = serde_json::from_str(l).expect("json");
            v["hist"].as_array().unwrap().iter().map(|x| x.as_u64().unwrap() as u8).collect()
        }).collect();
    }
    let skip: usize = a.get("skip").and_then(|s| s.parse().ok()).unwrap_or(0);
    let off: usize = a.get("offset").and_then(|s| s.parse().ok()).unwrap_or(0);
    for i in 0..n {
        let mut ti = gen_train_in(&mut rng, bare);
        if a.get("hists").is_some() && ti.user.is_empty() {
            ti.user.push((vec![0x61, 0x62], 0, 0, 0, vec!["N".to_string()]));   // histories with add-user need rows
        }
        if i < skip {
            continue;       // inputs are drawn from one sequential generator: skipping keeps later sessions identical
        }
        let rw = if randw && i % 2 == 1 { Some(seed.wrapping_mul(31).wrapping_add(i as u64)) } else { None };
        run_training(&ti, &hists[(off + i) % hists.len()], &mut evs, rw);
    }
    let mut f = std::io::BufWriter::new(std::fs::File::create(out).expect("create"));
    for e in &evs {
        writeln!(f, "{}", e).unwrap();
    }
    0
}


/// The train and dictgen binaries against the library path on the same inputs: every file
/// dictgen writes must be byte-identical to what the library generates from a model trained
/// with the same parameters (training is deterministic on one thread).
pub fn cli_train(a: &HashMap<String, String>) -> i32 {
    use std::process::{Command, Stdio};
    let seed: u64 = a.get("seed").and_then(|s| s.parse().ok()).unwrap_or(1);
    let n: usize = a.get("n").and_then(|s| s.parse().ok()).unwrap_or(6);
    let bins = a.get("bins").expect("--bins");
    let tmp = a.get("tmp").expect("--tmp");
    let out = a.get("out").expect("--out");
    let mut rng = Rng::new(seed ^ 0xC7A1);
    let mut evs: Vec<Value> = vec![];
    let run = |bin: &str, args: &[String]| -> bool {
        let mut cmd = Command::new(format!("{bins}/{bin}"));
        cmd.args(args);
        crate::progress::run_tool(cmd, None).0
    };
    for i in 0..n {
        let ti = gen_train_in(&mut rng, false);
        let dir = format!("{tmp}/t{i}");
        std::fs::create_dir_all(&dir).unwrap();
        let p = |f: &str| format!("{dir}/{f}");
        let shell = ti.adict_shell();
        std::fs::write(p("lex.csv"), ti.lex_text()).unwrap();
        std::fs::write(p("unk.def"), ti.unk_text()).unwrap();
        std::fs::write(p("char.def"), shell.render_char_def()).unwrap();
        std::fs::write(p("feature.def"), feature_def(&ti.templates)).unwrap();
        std::fs::write(p("rewrite.def"), rewrite_def3(&ti.rules)).unwrap();
        std::fs::write(p("corpus.txt"), ti.corpus_text()).unwrap();
        let with_user = !ti.user.is_empty();
        if with_user {
            std::fs::write(p("user.csv"), ti.user_text(&ti.user)).unwrap();
        }
        let ok_train = run("train", &["-l".into(), p("lex.csv"), "-u".into(), p("unk.def"), "-t".into(), p("corpus.txt"), "-c".into(), p("char.def"),
                                     "-f".into(), p("feature.def"), "-r".into(), p("rewrite.def"), "-o".into(), p("model.zst"),
                                     "--lambda".into(), ti.reg.to_string(), "--max-iter".into(), ti.max_iter.to_string(), "--num-threads".into(), "1".into()]);
        let mut dargs: Vec<String> = vec!["-i".into(), p("model.zst"), "-l".into(), p("out.lex"), "-u".into(), p("out.unk"), "-m".into(), p("out.matrix"), "--conn-id-info-out".into(), p("out.bigram")];
        if with_user {
            dargs.extend(["--user-lexicon-in".into(), p("user.csv"), "--user-lexicon-out".into(), p("out.user")]);
        }
        let ok_gen = ok_train && run("dictgen", &dargs);
        let h = |f: &str| -> i64 { std::fs::read(p(f)).map(|b| fnv31(&b) as i64).unwrap_or(-1) };
        let sorted_hash = |f: &str| -> i64 {
            std::fs::read_to_string(p(f)).map(|t| { let mut l: Vec<&str> = t.lines().collect(); l.sort(); fnv31(l.join("\n").as_bytes()) as i64 }).unwrap_or(-1)
        };
        let cli = json!({"lex": h("out.lex"), "unk": h("out.unk"), "matrix": h("out.matrix"), "user": if with_user { h("out.user") } else { -2 },
                         "left": h("out.bigram.left"), "right": h("out.bigram.right"), "cost": sorted_hash("out.bigram.cost")});
        // the library path
        let lib = catch_unwind(AssertUnwindSafe(|| -> Result<Value, String> {
            let cfg = TrainerConfig::from_readers(ti.lex_text().as_bytes(), shell.render_char_def().as_bytes(), ti.unk_text().as_bytes(),
                                                  feature_def(&ti.templates).as_bytes(), rewrite_def3(&ti.rules).as_bytes()).map_err(|e| e.to_string())?;
            let trainer = Trainer::new(cfg).map_err(|e| e.to_string())?.regularization_cost(ti.reg).max_iter(ti.max_iter).num_threads(1);
            let corpus = Corpus::from_reader(ti.corpus_text().as_bytes()).map_err(|e| e.to_string())?;
            let model = trainer.train(corpus).map_err(|e| e.to_string())?;
            // dictgen works on the model that went through write_model / read_model
            let mut model = reload(&model).ok_or("reload")?;
            if with_user {
                model.read_user_lexicon(ti.user_text(&ti.user).as_bytes()).map_err(|e| e.to_string())?;
            }
            let (mut lex, mut mat, mut unk, mut usr) = (vec![], vec![], vec![], vec![]);
            model.write_dictionary(&mut lex, &mut mat, &mut unk, &mut usr).map_err(|e| e.to_string())?;
            let (mut bl, mut br, mut bc) = (vec![], vec![], vec![]);
            model.write_bigram_details(&mut bl, &mut br, &mut bc).map_err(|e| e.to_string())?;
            let mut cl: Vec<String> = String::from_utf8_lossy(&bc).lines().map(|s| s.to_string()).collect();
            cl.sort();
            Ok(json!({"lex": fnv31(&lex), "unk": fnv31(&unk), "matrix": fnv31(&mat), "user": if with_user { fnv31(&usr) as i64 } else { -2 },
                      "left": fnv31(&bl), "right": fnv31(&br), "cost": fnv31(cl.join("\n").as_bytes())}))
        }));
        let ev = match lib {
            Ok(Ok(l)) => json!({"ev": "clidiff", "lib_ok": true, "train_ok": ok_train, "dictgen_ok": ok_gen, "lib": l, "cli": cli, "user": with_user}),
            Ok(Err(e)) => json!({"ev": "clidiff", "lib_ok": false, "train_ok": ok_train, "dictgen_ok": ok_gen, "lib": {}, "cli": cli, "user": with_user, "msg": e}),
            Err(_) => json!({"ev": "clidiff", "lib_ok": false, "lib_panic": true, "train_ok": ok_train, "dictgen_ok": ok_gen, "lib": {}, "cli": cli, "user": with_user}),
        };
        evs.push(ev);
        let _ = std::fs::remove_dir_all(&dir);
    }
    let mut f = std::io::BufWriter::new(std::fs::File::create(out).expect("create"));
    for e in &evs {
        writeln!(f, "{}", e).unwrap();
    }
    0
}

// ------------------------------------------------------------------ training lattices (extended coverage)

/// A training input whose char.def / unk.def / lexicon exercise the candidate rule and the
/// labelling of gold tokens: three categories, overlapping multi-category ranges, seed rows
/// sharing (feature, first character), gold tokens absent from the lexicon that are or are
/// not compatible with an unknown entry ("*" cells), max_grouping_len.
fn gen_lat_in(rng: &mut Rng) -> (TrainIn, usize) {
    let cats = vec![
        ACat { name: "DEFAULT".into(), invoke: rng.below(2) as u8, group: rng.below(2) as u8, length: rng.below(4) as u32 },
        ACat { name: "ALPHA".into(), invoke: rng.below(2) as u8, group: rng.below(2) as u8, length: rng.below(4) as u32 },
        ACat { name: "NUM".into(), invoke: rng.below(2) as u8, group: rng.below(2) as u8, length: rng.below(3) as u32 },
    ];
    let mut ranges = vec![ARange { lo: 0x61, hi: 0x63, cs: vec![1] }, ARange { lo: 0x30, hi: 0x32, cs: vec![2] }];
    if rng.chance(1, 2) {
        ranges.push(ARange { lo: 0x62, hi: 0x64, cs: if rng.chance(1, 2) { vec![1, 2] } else { vec![2, 1] } });
    }
    let alphabet: [u32; 8] = [0x61, 0x62, 0x63, 0x64, 0x30, 0x31, 0x7A, 0x3042];
    let feats = |rng: &mut Rng| -> Vec<String> {
        let vals = ["N", "V", "x", "名詞"];
        (0..(1 + rng.below(3))).map(|_| rng.pick(&vals).to_string()).collect()
    };
    let nseed = 2 + rng.below(6);
    let mut seed: Vec<(Vec<u32>, Vec<String>)> = vec![];
    for _ in 0..nseed {
        let len = 1 + rng.below(3);
        let s: Vec<u32> = (0..len).map(|_| *rng.pick(&alphabet[..6])).collect();
        seed.push((s, feats(rng)));
    }
    if rng.chance(2, 3) {
        // a second row with the same feature and the same first character (label_id_map keeps the later one)
        let (s, c) = seed[rng.below(seed.len())].clone();
        let mut t = vec![s[0]];
        t.push(*rng.pick(&alphabet[..6]));
        seed.push((t, c));
    }
    if rng.chance(1, 3) {
        let w = seed[0].clone();       // an exact homograph with equal features
        seed.push(w);
    }
    let mut unk = vec![];
    for cat in 0..cats.len() {
        for _ in 0..(1 + rng.below(3)) {
            let mut c = feats(rng);
            for x in c.iter_mut() {
                if rng.chance(1, 2) {
                    *x = "*".to_string();
                }
            }
            unk.push((cat, c));
        }
    }
    rng.shuffle(&mut unk);
    let nsent = 2 + rng.below(5);
    let mut corpus = vec![];
    for _ in 0..nsent {
        let ntok = 1 + rng.below(4);
        let mut sent = vec![];
        for _ in 0..ntok {
            match rng.below(5) {
                0 | 1 => {
                    // absent from the lexicon: a run of one category (compatible or not), or mixed
                    let len = 1 + rng.below(4);
                    let ch = *rng.pick(&alphabet);
                    let s: Vec<u32> = (0..len).map(|_| if rng.chance(3, 4) { ch } else { *rng.pick(&alphabet) }).collect();
                    sent.push((s, feats(rng)));
                }
                2 => {
                    // the feature of a seed row on another surface with the same first character
                    let (s, c) = rng.pick(&seed).clone();
                    let mut t = vec![s[0]];
                    for _ in 0..rng.below(3) {
                        t.push(*rng.pick(&alphabet[..6]));
                    }
                    sent.push((t, c));
                }
                _ => sent.push(rng.pick(&seed).clone()),
            }
        }
        corpus.push(sent);
    }
    let templates = gen_templates(rng, false);
    let mgl = if rng.chance(1, 2) { 0 } else { 1 + rng.below(3) };
    (TrainIn { cats, ranges, seed, unk, templates, rules: gen_rules(rng), corpus, user: vec![], max_iter: 1, reg: 0.01 }, mgl)
}

fn lat_dict_json(ti: &TrainIn) -> Value {
    json!({
        "cats": ti.cats.iter().map(|c| json!({"invoke": c.invoke, "group": c.group, "length": c.length})).collect::<Vec<_>>(),
        "ranges": ti.ranges.iter().map(|r| json!({"lo": r.lo, "hi": r.hi, "cs": r.cs})).collect::<Vec<_>>(),
        "space": -1,
        "lex": ti.seed.iter().map(|(s, c)| json!({"s": s, "f": c, "l": 0, "r": 0, "c": 0})).collect::<Vec<_>>(),
        "user": Vec::<Value>::new(),
        "unk": ti.unk.iter().map(|(cat, c)| json!({"cat": cat, "f": c, "l": 0, "r": 0, "c": 0})).collect::<Vec<_>>(),
    })
}

fn run_lat(ti: &TrainIn, mgl: usize, out: &mut Vec<Value>) {
    let r = catch_unwind(AssertUnwindSafe(|| -> Result<(), String> {
        let log = &mut *out;
        let shell = ti.adict_shell();
        let cfg = TrainerConfig::from_readers(ti.lex_text().as_bytes(), shell.render_char_def().as_bytes(), ti.unk_text().as_bytes(),
                                              feature_def(&ti.templates).as_bytes(), rewrite_def3(&ti.rules).as_bytes()).map_err(|e| e.to_string())?;
        let mut trainer = Trainer::new(cfg).map_err(|e| e.to_string())?.max_grouping_len(mgl);
        log.push(json!({"ev": "tlsession", "D": lat_dict_json(ti), "mgl": mgl, "nlab0": trainer.verif_num_labels()}));
        let mut corpus = Corpus::from_reader(ti.corpus_text().as_bytes()).map_err(|e| e.to_string())?;
        for (i, sent) in ti.corpus.iter().enumerate() {
            let s: Vec<u32> = sent.iter().flat_map(|(s, _)| s.iter().cloned()).collect();
            let toks: Vec<Value> = sent.iter().map(|(s, c)| json!({"n": s.len(), "f": c})).collect();
            match trainer.verif_build_lattice(&mut corpus[i]) {
                Ok(nodes) => log.push(json!({"ev": "tlat", "s": s, "toks": toks, "nlab": trainer.verif_num_labels(),
                    "nodes": nodes.iter().map(|n| n.iter().map(|(t, l)| json!({"t": t, "lab": l})).collect::<Vec<_>>()).collect::<Vec<_>>()})),
                Err(e) => log.push(json!({"ev": "tlat_err", "s": s, "toks": toks, "msg": e.to_string()})),
            }
        }
        Ok(())
    }));
    match r {
        Ok(Ok(())) => {}
        Ok(Err(e)) => out.push(json!({"ev": "train_err", "msg": e})),
        Err(e) => {
            let msg = if let Some(s) = e.downcast_ref::<String>() { s.clone() } else if let Some(s) = e.downcast_ref::<&str>() { s.to_string() } else { "panic".into() };
            out.push(json!({"ev": "panic", "op": {"op": "trainlat"}, "msg": msg}))
        }
    }
}

/// Records training lattices: per session one trainer, every example of its corpus in order.
pub fn record_lat(a: &HashMap<String, String>) -> i32 {
    let seed: u64 = a.get("seed").and_then(|s| s.parse().ok()).unwrap_or(1);
    let n: usize = a.get("n").and_then(|s| s.parse().ok()).unwrap_or(10);
    let out = a.get("out").expect("--out");
    let mut rng = Rng::new(seed ^ 0x1A77);
    let mut evs = vec![];
    for _ in 0..n {
        let (ti, mgl) = gen_lat_in(&mut rng);
        run_lat(&ti, mgl, &mut evs);
    }
    let mut f = std::io::BufWriter::new(std::fs::File::create(out).expect("create"));
    for e in &evs {
        writeln!(f, "{}", e).unwrap();
    }
    0
}
