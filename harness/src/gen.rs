//! Random generation of abstract dictionaries, sentences and options.
use crate::adict::*;
use crate::rng::Rng;

pub const LETTERS: &[u32] = &[0x61, 0x62, 0x63, 0xE9, 0x6771, 0x4EAC, 0xFFFF];
pub const SPACES: &[u32] = &[0x20, 0x3000];
pub const ASTRAL: &[u32] = &[0x1F600, 0x10000];
pub const OUTSIDE: &[u32] = &[0x7A, 0x0, 0x3042]; // never mentioned in lexicon

#[derive(Clone, Debug)]
pub struct GenCfg {
    pub conn_kind: u8, // 0 matrix, 1 raw, 2 dual, 3 random
    pub want_space: bool,
    pub space_isolated: bool,
    pub max_ids: usize,
    pub allow_user: bool,
    /// some dictionaries get 19 categories (DEFAULT + 18): one too many for the 18-bit category set,
    /// the builder must reject them (only recorders that can log a rejected build set this)
    pub overfull: bool,
}

impl Default for GenCfg {
    fn default() -> Self {
        GenCfg { conn_kind: 3, want_space: true, space_isolated: false, max_ids: 4, allow_user: true, overfull: false }
    }
}

pub fn alphabet() -> Vec<u32> {
    let mut v = vec![];
    v.extend_from_slice(LETTERS);
    v.extend_from_slice(SPACES);
    v.extend_from_slice(ASTRAL);
    v.extend_from_slice(OUTSIDE);
    v
}

fn gen_cost(rng: &mut Rng) -> i32 {
    match rng.below(12) {
        0 => 32767,
        1 => -32768,
        2 => 0,
        _ => rng.range(-40, 40) as i32,
    }
}

fn gen_word(rng: &mut Rng, nl: usize, nr: usize, with_space: bool, astral_ok: bool, tag: &str, i: usize) -> AWord {
    let len = 1 + rng.below(4);
    let mut s = vec![];
    for _ in 0..len {
        if with_space && rng.chance(1, 6) {
            s.push(*rng.pick(SPACES));
        } else if astral_ok && rng.chance(1, 12) {
            s.push(*rng.pick(ASTRAL));
        } else {
            s.push(*rng.pick(LETTERS));
        }
    }
    let feats = ["N", "N,x", "\"q,r\",z", "V,*,\"a\"\"b\"", "名詞,一般", ""];
    AWord {
        s,
        l: rng.below(nl) as u32,
        r: rng.below(nr) as u32,
        c: gen_cost(rng),
        f: format!("{}{}{}", tag, i, if rng.chance(1, 2) { format!(",{}", rng.pick(&feats)) } else { String::new() }),
    }
}

pub fn gen_bigram(rng: &mut Rng, nr: usize, nl: usize, min_k: usize, max_k: usize) -> ABigram {
    gen_bigram_ext(rng, nr, nl, min_k, max_k, false)
}

/// `big`: some cost lines carry values beyond 16 bits (raw connector only: the dual
/// connector's pre-summed part must fit in 16 bits for C07 to apply).
pub fn gen_bigram_ext(rng: &mut Rng, nr: usize, nl: usize, min_k: usize, max_k: usize, big: bool) -> ABigram {
    // more than 8 templates half of the time, so that the dual connector has a matrix part
    let k = if max_k > 9 && rng.chance(1, 2) { 9 + rng.below(max_k - 8) } else { min_k + rng.below(max_k.min(8) - min_k + 1) };
    // feature pools per side; strings may be shared across positions
    // (features ending in white space: the readers must not trim what is part of a feature)
    let rpool: Vec<String> = ["A", "B", "C", "B1:x,y", "R\"q", "名詞", "W ", "\u{3000}"].iter().map(|s| s.to_string()).collect();
    let lpool: Vec<String> = ["a", "b", "c", "x,y", "l\"q", "動詞", "w ", "\u{3000}"].iter().map(|s| s.to_string()).collect();
    let row = |rng: &mut Rng, pool: &Vec<String>| -> Vec<String> {
        let len = if rng.chance(1, 4) { rng.below(k + 1) } else { k };
        (0..len)
            .map(|_| match rng.below(8) {
                0 => "*".to_string(),
                1 => "unlisted".to_string(),
                2 => String::new(),
                _ => rng.pick(pool).clone(),
            })
            .collect()
    };
    let rows = |rng: &mut Rng, n: usize, pool: &Vec<String>| -> Vec<Vec<String>> {
        let mut out: Vec<Vec<String>> = vec![];
        for _ in 0..n {
            if !out.is_empty() && rng.chance(1, 2) {
                // a near-copy of an earlier row: ids that share most (or all) of their features
                let mut r = rng.pick(&out).clone();
                if !r.is_empty() && rng.chance(2, 3) {
                    let p = rng.below(r.len());
                    r[p] = rng.pick(pool).clone();
                }
                out.push(r);
            } else {
                out.push(row(rng, pool));
            }
        }
        out
    };
    let mut right = rows(rng, nr - 1, &rpool);
    let mut left = rows(rng, nl - 1, &lpool);
    // an empty line is read as one empty feature (see F16): keep at least one cell per row
    for r in right.iter_mut().chain(left.iter_mut()) {
        if r.is_empty() {
            r.push("*".to_string());
        }
    }
    let mut cost = vec![];
    let dense = rng.chance(1, 3);
    let mut rall = rpool.clone();
    rall.push(String::new());
    let mut lall = lpool.clone();
    lall.push(String::new());
    for rf in &rall {
        for lf in &lall {
            if rf.is_empty() && lf.is_empty() {
                continue; // the pair ''/'' is outside the domain (DESIGN C07)
            }
            if dense || rng.chance(1, 4) {
                let c = if big && rng.chance(1, 4) {
                    (rng.range(30000, 100000) as i32) * if rng.chance(1, 2) { 1 } else { -1 }
                } else {
                    rng.range(-60, 60) as i32
                };
                cost.push((rf.clone(), lf.clone(), c));
            }
        }
    }
    if rng.chance(1, 3) && !cost.is_empty() {
        // a duplicate line: the last one wins
        let (rf, lf, _) = cost[rng.below(cost.len())].clone();
        cost.push((rf, lf, rng.range(-60, 60) as i32));
    }
    rng.shuffle(&mut cost);
    ABigram { right, left, cost }
}

pub fn gen_dict(rng: &mut Rng, cfg: &GenCfg) -> ADict {
    // categories: usually a handful; one dictionary in five uses 12-18 of them (the category set
    // is an 18-bit mask and the base id an 8-bit field: high ids must work like low ones)
    let many = rng.chance(1, 5);
    let overfull = many && cfg.overfull && rng.chance(1, 3);
    let all_names: Vec<String> = if many {
        (1..(if overfull { 19 } else { 18 })).map(|i| format!("K{i}")).collect()
    } else {
        vec!["ALPHA".to_string(), "KANJI".to_string(), "SYM".to_string(), "X9".to_string()]
    };
    let mut names: Vec<String> = all_names.clone();
    rng.shuffle(&mut names);
    let with_space = cfg.want_space && rng.chance(4, 5);
    // many: all 18 category ids (0..17) exist
    let ncat = if many { (if with_space { 16 } else { 17 }) + overfull as usize } else { rng.below(4) };
    let glen = |rng: &mut Rng| -> u32 { match rng.below(10) { 0 => 15, 1 => 7, 2 => 4, _ => rng.below(4) as u32 } };
    let mut cats = vec![ACat { name: "DEFAULT".into(), invoke: rng.below(2) as u8, group: rng.below(2) as u8, length: glen(rng) }];
    let mut order: Vec<String> = names[..ncat.min(names.len())].to_vec();
    if with_space {
        let p = rng.below(order.len() + 1);
        order.insert(p, "SPACE".into());
    }
    for n in order {
        let (i, g, l) = if n == "SPACE" && rng.chance(3, 4) { (0, 1, 0) } else { (rng.below(2) as u8, rng.below(2) as u8, glen(rng)) };
        cats.push(ACat { name: n, invoke: i, group: g, length: l });
    }
    let space = cats.iter().position(|c| c.name == "SPACE");
    let nonspace: Vec<usize> = (0..cats.len()).filter(|&i| Some(i) != space).collect();

    // range lines over the letters.  U+0000 is covered in one dictionary out of eight; such a
    // dictionary and its sentences then contain no astral characters (known finding F19: the pinned
    // code gives them the information of U+0000; the probe of F19 covers that case on its own)
    let mut ranges = vec![];
    let isolated = cfg.space_isolated || rng.chance(3, 4);
    let nlines = if many { 6 + rng.below(8) } else { rng.below(6) };
    for _ in 0..nlines {
        let a = *rng.pick(LETTERS);
        let (lo, hi) = match rng.below(4) {
            0 => (a, a),
            1 => (a, a + rng.below(3) as u32),
            2 => (0x61, 0x63),
            _ => (a.saturating_sub(rng.below(2) as u32).max(1), a + 1),
        };
        let hi = hi.min(0xFFFF);
        let ncs = 1 + rng.below(3.min(cats.len()));
        let mut cs = vec![];
        for _ in 0..ncs {
            let c = if isolated { *rng.pick(&nonspace) } else { rng.below(cats.len()) };
            if !cs.contains(&c) {
                cs.push(c);
            }
        }
        ranges.push(ARange { lo, hi, cs });
    }
    let nul_cover = rng.chance(1, 8);
    if nul_cover {
        let pos = rng.below(ranges.len() + 1);
        ranges.insert(pos, ARange { lo: 0, hi: *rng.pick(&[0u32, 0x1F, 0x61]), cs: vec![*rng.pick(&nonspace)] });
    }
    if rng.chance(1, 6) {
        // a last line that reaches the end of the BMP (the per-character table ends in a run that is not DEFAULT)
        ranges.push(ARange { lo: 0xFFFF - (1 + rng.below(0x20)) as u32, hi: 0xFFFF, cs: vec![*rng.pick(&nonspace)] });
    }
    if let Some(sp) = space {
        // space characters
        let pos = rng.below(ranges.len() + 1);
        let mut cs = vec![sp];
        if !isolated && rng.chance(1, 2) {
            cs.push(*rng.pick(&nonspace));
        }
        if rng.chance(1, 5) {
            // SPACE is the ideographic space alone; U+0020 is an ordinary character (DEFAULT or another category)
            ranges.push(ARange { lo: 0x3000, hi: 0x3000, cs });
            if rng.chance(1, 2) {
                ranges.insert(pos, ARange { lo: 0x20, hi: 0x20, cs: vec![*rng.pick(&nonspace)] });
            }
        } else {
            ranges.insert(pos, ARange { lo: 0x20, hi: 0x20, cs: cs.clone() });
            if rng.chance(2, 3) {
                ranges.push(ARange { lo: 0x3000, hi: 0x3000, cs });
            }
        }
    }

    let nr = if cfg.max_ids > 8 { cfg.max_ids / 2 + rng.below(cfg.max_ids / 2) } else { 1 + rng.below(cfg.max_ids) };
    let nl = if cfg.max_ids > 8 { cfg.max_ids / 2 + rng.below(cfg.max_ids / 2) } else { 1 + rng.below(cfg.max_ids) };
    let kind = if cfg.conn_kind == 3 { rng.below(3) as u8 } else { cfg.conn_kind };
    let conn = match kind {
        0 => AConn::Matrix { nr, nl, mat: (0..nr * nl).map(|_| gen_cost(rng) / if rng.chance(1, 2) { 1 } else { 8 }).collect() },
        1 => AConn::Bigram { dual: false, model: gen_bigram_ext(rng, nr, nl, 1, 10, true) },
        _ => AConn::Bigram { dual: true, model: gen_bigram(rng, nr, nl, 1, 12) },
    };

    let nlex = 1 + rng.below(8);
    let word_spaces = !isolated && rng.chance(1, 2);
    let mut lex: Vec<AWord> = (0..nlex).map(|i| gen_word(rng, nl, nr, word_spaces, !nul_cover, "s", i)).collect();
    // homographs and nested prefixes
    if !lex.is_empty() && rng.chance(1, 2) {
        let mut w = lex[rng.below(lex.len())].clone();
        w.l = rng.below(nl) as u32;
        w.c = gen_cost(rng);
        w.f = format!("h{}", lex.len());
        lex.push(w);
    }
    if !lex.is_empty() && rng.chance(1, 2) {
        let mut w = lex[rng.below(lex.len())].clone();
        w.s.push(*rng.pick(LETTERS));
        w.f = format!("x{}", lex.len());
        lex.push(w);
    }
    let user = if cfg.allow_user && rng.chance(1, 3) {
        let n = 1 + rng.below(4);
        let mut u: Vec<AWord> = (0..n).map(|i| gen_word(rng, nl, nr, word_spaces, !nul_cover, "u", i)).collect();
        if !lex.is_empty() && rng.chance(1, 2) {
            let mut w = lex[rng.below(lex.len())].clone();
            w.f = "uh".into();
            w.c = gen_cost(rng);
            u.push(w);
        }
        Some(u)
    } else {
        None
    };

    // unknown entries: every category gets at least one (UnkComplete)
    let mut unk = vec![];
    for c in 0..cats.len() {
        let n = 1 + if rng.chance(1, 3) { rng.below(3) } else { 0 };
        for j in 0..n {
            unk.push(AUnk { cat: c, l: rng.below(nl) as u32, r: rng.below(nr) as u32, c: gen_cost(rng), f: format!("unk{}_{}", c, j) });
        }
    }
    rng.shuffle(&mut unk);

    let default_line_pos = rng.below(cats.len());
    ADict { cats, default_line_pos, ranges, lex, user, unk, conn, iso: isolated }
}

pub fn gen_sentence(rng: &mut Rng, d: &ADict, max_len: usize) -> Vec<u32> {
    let target = match rng.below(10) {
        0 => 0,
        1 => 1,
        _ => 1 + rng.below(max_len),
    };
    let mut s: Vec<u32> = vec![];
    let mut alpha = alphabet();
    if d.ranges.iter().any(|r| r.lo == 0) {
        alpha.retain(|c| *c <= 0xFFFF);
    }
    while s.len() < target {
        match rng.below(10) {
            0..=3 if !d.lex.is_empty() => s.extend_from_slice(&rng.pick(&d.lex).s),
            4 if d.user.as_ref().map_or(false, |u| !u.is_empty()) => s.extend_from_slice(&rng.pick(d.user.as_ref().unwrap()).s),
            5 | 6 => {
                let n = 1 + rng.below(3);
                let sp = *rng.pick(SPACES);
                for _ in 0..n {
                    s.push(if rng.chance(1, 4) { *rng.pick(SPACES) } else { sp });
                }
            }
            _ => s.push(*rng.pick(&alpha)),
        }
    }
    s.truncate(target.max(if s.len() > max_len { max_len } else { s.len() }).min(s.len()));
    if s.len() > max_len {
        s.truncate(max_len);
    }
    s
}

/// A re-spacing of `s`: every run of space characters replaced by a run of another
/// non-zero length; leading/trailing runs added or removed.
/// The characters of SPACES that THIS dictionary puts into its SPACE category (decided by the last
/// range line covering the character).
pub fn dict_spaces(d: &ADict) -> Vec<u32> {
    let sp = d.space_cat();
    SPACES.iter().cloned().filter(|&c| {
        sp >= 0 && d.ranges.iter().rev().find(|r| r.lo <= c && c <= r.hi).map_or(false, |r| r.cs.contains(&(sp as usize)))
    }).collect()
}

pub fn respace(rng: &mut Rng, s: &[u32]) -> Vec<u32> {
    respace_with(rng, s, SPACES)
}

/// Re-spacing with the given space characters only.
pub fn respace_with(rng: &mut Rng, s: &[u32], spaces: &[u32]) -> Vec<u32> {
    if spaces.is_empty() {
        return s.to_vec();
    }
    let is_sp = |c: u32| spaces.contains(&c);
    let mut words: Vec<Vec<u32>> = vec![];
    let mut cur = vec![];
    for &c in s {
        if is_sp(c) {
            if !cur.is_empty() {
                words.push(std::mem::take(&mut cur));
            }
        } else {
            cur.push(c);
        }
    }
    if !cur.is_empty() {
        words.push(cur);
    }
    let run = |rng: &mut Rng| -> Vec<u32> { (0..1 + rng.below(3)).map(|_| *rng.pick(spaces)).collect() };
    let mut out = vec![];
    if rng.chance(1, 2) {
        out.extend(run(rng));
    }
    for (i, w) in words.iter().enumerate() {
        if i > 0 {
            out.extend(run(rng));
        }
        out.extend_from_slice(w);
    }
    if rng.chance(1, 2) {
        out.extend(run(rng));
    }
    out
}
