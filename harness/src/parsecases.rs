//! C10 / C11: the building functions on edited, corrupted and grammar-generated definition
//! files.  The harness renders token-level files to text, calls the builders under
//! catch_unwind and logs outcomes; classification and CSV semantics live in the TLA+
//! specification (VParse, VCsv).
use std::collections::HashMap;
use std::io::Write;
use std::panic::{catch_unwind, AssertUnwindSafe};

use serde_json::{json, Value};
use vibrato::{Dictionary, SystemDictionaryBuilder, Tokenizer};

use crate::adict::*;
use crate::gen::*;
use crate::rng::Rng;

fn lines_of(v: &Value, sep: &str, final_nl: bool) -> String {
    let mut out = String::new();
    let ls = v.as_array().cloned().unwrap_or_default();
    for (i, l) in ls.iter().enumerate() {
        let toks: Vec<String> = l.as_array().map(|a| a.iter().map(|t| t.as_str().unwrap_or("").to_string()).collect()).unwrap_or_default();
        out.push_str(&toks.join(sep));
        if i + 1 < ls.len() || final_nl {
            out.push('\n');
        }
    }
    out
}

fn probe_sentences() -> Vec<String> {
    vec!["a".into(), "ab".into(), " a b".into(), "zzz".into(), "あa".into(), "😀".into(), "".into(), "abあ  b".into(), "\u{0}a".into()]
}

/// Tokenizes the probes (without ignore_space) under catch_unwind.  Each probe also carries
/// the primary category of every character, and the event the categories that have no
/// unknown entry (both read from the real dictionary), so that the specification can
/// recognise the known finding F12 by its signature.
pub fn run_probes(dict: Dictionary) -> (Vec<Value>, Vec<u32>) {
    let ncat = dict.verif_num_categories();
    let mut have = vec![false; ncat];
    for e in dict.verif_unk_entries() {
        if (e.0 as usize) < ncat {
            have[e.0 as usize] = true;
        }
    }
    let nounk: Vec<u32> = (0..ncat as u32).filter(|&c| !have[c as usize]).collect();
    let cats_of: Vec<Vec<u32>> = probe_sentences().iter().map(|s| s.chars().map(|c| dict.verif_char_info(c).1).collect()).collect();
    let tok = Tokenizer::new(dict);
    let mut out = vec![];
    for (k, s) in probe_sentences().into_iter().enumerate() {
        let r = catch_unwind(AssertUnwindSafe(|| {
            let mut w = tok.new_worker();
            w.reset_sentence(&s);
            w.tokenize();
            (0..w.num_tokens()).map(|i| { let t = w.token(i); json!({"b": t.range_char().start, "e": t.range_char().end}) }).collect::<Vec<_>>()
        }));
        let cps: Vec<u32> = s.chars().map(|c| c as u32).collect();
        match r {
            Ok(toks) => out.push(json!({"s": cps, "cats": cats_of[k], "panic": false, "toks": toks})),
            Err(_) => out.push(json!({"s": cps, "cats": cats_of[k], "panic": true, "toks": []})),
        }
    }
    (out, nounk)
}

fn outcome_event(class: &str, what: Value, r: std::thread::Result<vibrato::errors::Result<Dictionary>>) -> Value {
    outcome_event_lex(class, what, r, None)
}

/// `lexs`: the surfaces of the lexicon rows as the INPUT files give them (when they are known: the
/// token-level cases), so that the specification can tell a position where no lexicon entry starts -
/// the only place where known finding F12 makes tokenization panic - from any other position.
fn outcome_event_lex(class: &str, what: Value, r: std::thread::Result<vibrato::errors::Result<Dictionary>>, lexs: Option<Vec<Vec<u32>>>) -> Value {
    let known = lexs.is_some();
    let lexs = lexs.unwrap_or_default();
    match r {
        Ok(Ok(d)) => {
            let (probes, nounk) = run_probes(d);
            json!({"ev": "build", "class": class, "outcome": "ok", "probes": probes, "nounk": nounk, "what": what, "lexknown": known, "lexs": lexs})
        }
        Ok(Err(e)) => json!({"ev": "build", "class": class, "outcome": "err", "probes": [], "nounk": [], "what": what, "lexknown": known, "lexs": lexs, "msg": e.to_string().chars().take(120).collect::<String>()}),
        Err(_) => json!({"ev": "build", "class": class, "outcome": "panic", "probes": [], "nounk": [], "what": what, "lexknown": known, "lexs": lexs}),
    }
}

/// specification -> implementation: TLC-generated edited file sets with their class.
pub fn parse_cases(a: &HashMap<String, String>) -> i32 {
    let inp = a.get("in").expect("--in");
    let out = a.get("out").expect("--out");
    let text = std::fs::read_to_string(inp).expect("read");
    let mut f = std::io::BufWriter::new(std::fs::File::create(out).expect("create"));
    for line in text.lines().filter(|l| !l.trim().is_empty()) {
        let v: Value = serde_json::from_str(line).expect("json");
        let files = &v["files"];
        let nofinal = v["nofinal"].as_bool().unwrap_or(false);
        let edited = v["edit"]["f"].as_str().unwrap_or("");
        let fin = |name: &str| !(nofinal && edited == name);
        let chr = lines_of(&files["char"], " ", fin("char"));
        let mat = lines_of(&files["matrix"], " ", fin("matrix"));
        let lex = lines_of(&files["lex"], ",", fin("lex"));
        let unk = lines_of(&files["unk"], ",", fin("unk"));
        // surfaces of the lexicon rows (first token of each row of the token-level file)
        let lexs: Vec<Vec<u32>> = files["lex"].as_array().cloned().unwrap_or_default().iter()
            .filter_map(|l| l.as_array().and_then(|a| a.first()).and_then(|t| t.as_str()).map(|t| t.chars().map(|c| c as u32).collect::<Vec<u32>>()))
            .filter(|s: &Vec<u32>| !s.is_empty()).collect();
        if v["bigram"].as_bool().unwrap_or(false) {
            // bigram.right/left: id TAB f,f,...   bigram.cost: rf/lf TAB cost
            let idrows = |x: &Value, fin: bool| -> String {
                let ls = x.as_array().cloned().unwrap_or_default();
                let mut out = String::new();
                for (i, l) in ls.iter().enumerate() {
                    let t: Vec<String> = l.as_array().map(|a| a.iter().map(|t| t.as_str().unwrap_or("").to_string()).collect()).unwrap_or_default();
                    out.push_str(&match t.len() { 0 => String::new(), 1 => t[0].clone(), _ => format!("{}\t{}", t[0], t[1..].join(",")) });
                    if i + 1 < ls.len() || fin {
                        out.push('\n');
                    }
                }
                out
            };
            let costrows = |x: &Value, fin: bool| -> String {
                let ls = x.as_array().cloned().unwrap_or_default();
                let mut out = String::new();
                for (i, l) in ls.iter().enumerate() {
                    let t: Vec<String> = l.as_array().map(|a| a.iter().map(|t| t.as_str().unwrap_or("").to_string()).collect()).unwrap_or_default();
                    out.push_str(&match t.len() { 0 => String::new(), 1 => t[0].clone(), 2 => format!("{}/{}", t[0], t[1]), _ => format!("{}/{}\t{}", t[0], t[1], t[2..].join("\t")) });
                    if i + 1 < ls.len() || fin {
                        out.push('\n');
                    }
                }
                out
            };
            let (br, bl, bc) = (idrows(&files["right"], fin("right")), idrows(&files["left"], fin("left")), costrows(&files["cost"], fin("cost")));
            for dual in [false, true] {
                let r = catch_unwind(AssertUnwindSafe(|| SystemDictionaryBuilder::from_readers_with_bigram_info(
                    lex.as_bytes(), br.as_bytes(), bl.as_bytes(), bc.as_bytes(), chr.as_bytes(), unk.as_bytes(), dual)));
                let ev = outcome_event_lex(v["class"].as_str().unwrap_or("DONT_CARE"), json!({"edit": v["edit"], "dual": dual}), r, Some(lexs.clone()));
                writeln!(f, "{}", ev).unwrap();
            }
            continue;
        }
        let r = catch_unwind(AssertUnwindSafe(|| SystemDictionaryBuilder::from_readers(lex.as_bytes(), mat.as_bytes(), chr.as_bytes(), unk.as_bytes())));
        let ev = outcome_event_lex(v["class"].as_str().unwrap_or("DONT_CARE"), json!({"edit": v["edit"], "edit2": v["edit2"]}), r, Some(lexs));
        writeln!(f, "{}", ev).unwrap();
    }
    0
}

fn corrupt(rng: &mut Rng, bytes: &mut Vec<u8>) -> String {
    if bytes.is_empty() {
        bytes.extend_from_slice(b"\xff\xfe");
        return "fill".into();
    }
    let p = rng.below(bytes.len());
    // structure-aware edits: what an interrupted write or a careless edit does to a definition line
    let find_all = |hay: &[u8], needle: &[u8]| -> Vec<usize> { (0..hay.len().saturating_sub(needle.len() - 1)).filter(|&i| &hay[i..i + needle.len()] == needle).collect() };
    let line_end = |hay: &[u8], from: usize| -> usize { hay[from..].iter().position(|&b| b == b'\n').map_or(hay.len(), |k| from + k) };
    match rng.below(18) {
        12 | 13 => {
            // the rest of a line is lost right after a separator ("0x0041..", "a,1,", "DEFAULT 0 ")
            let seps: [&[u8]; 5] = [b"..", b",", b" ", b"\t", b"/"];
            let sep = *rng.pick(&seps);
            let at = find_all(bytes, sep);
            if let Some(&i) = at.get(rng.below(at.len().max(1))) {
                let from = i + sep.len();
                let keep = rng.below(2);                       // nothing, or one more byte
                let to = line_end(bytes, from);
                let from = (from + keep).min(to);
                bytes.drain(from..to);
                return "cut-after-separator".into();
            }
            bytes.truncate(p);
            return "truncate".into();
        }
        14 => {
            // a hexadecimal prefix goes missing
            let at = find_all(bytes, b"0x");
            if let Some(&i) = at.get(rng.below(at.len().max(1))) {
                bytes.drain(i..i + 2);
                return "drop-0x".into();
            }
            bytes.remove(p);
            return "delete".into();
        }
        15 => {
            let ins = "あ".as_bytes().to_vec();
            let at = find_all(bytes, b"..");
            let q = at.get(rng.below(at.len().max(1))).map_or(p, |&i| i + 2);
            bytes.splice(q..q, ins);
            return "multibyte".into();
        }
        _ => {}
    }
    match rng.below(12) {
        0 => { bytes[p] ^= 1 << rng.below(8); "bitflip".into() }
        1 => { bytes[p] = 0; "nul".into() }
        2 => { bytes[p] = 0xFF; "invalid-utf8".into() }
        3 => { bytes.truncate(p); "truncate".into() }
        4 => { bytes.remove(p); "delete".into() }
        5 => { bytes.insert(p, b','); "comma".into() }
        6 => { bytes.insert(p, b'\n'); "newline".into() }
        7 => { bytes.insert(p, b'"'); "quote".into() }
        8 => { bytes.insert(p, b'\t'); "tab".into() }
        9 => { bytes.insert(p, b' '); "space".into() }
        10 => { let ins = vec![b'9'; 5000]; bytes.splice(p..p, ins); "longline".into() }
        _ => { bytes.insert(p, b'-'); "minus".into() }
    }
}

/// implementation -> specification: random byte corruption of valid definition files; every
/// builder entry point.  The class is DONT_CARE: never a panic, safe when accepted.
pub fn fuzz_build(a: &HashMap<String, String>) -> i32 {
    let seed: u64 = a.get("seed").and_then(|s| s.parse().ok()).unwrap_or(1);
    let n: usize = a.get("n").and_then(|s| s.parse().ok()).unwrap_or(200);
    let out = a.get("out").expect("--out");
    let mut rng = Rng::new(seed ^ 0xF022);
    let mut f = std::io::BufWriter::new(std::fs::File::create(out).expect("create"));
    for i in 0..n {
        let kind = (i % 3) as u8;
        let cfg = GenCfg { conn_kind: kind, ..Default::default() };
        let d = gen_dict(&mut rng, &cfg);
        let mut files: Vec<(&str, Vec<u8>)> = vec![
            ("lex", ADict::render_lex(&d.lex).into_bytes()),
            ("char", d.render_char_def().into_bytes()),
            ("unk", d.render_unk().into_bytes()),
        ];
        match &d.conn {
            AConn::Matrix { nr, nl, mat } => files.push(("matrix", ADict::render_matrix(*nr, *nl, mat).into_bytes())),
            AConn::Bigram { model, .. } => {
                let (r, l, c) = ADict::render_bigram(model);
                files.push(("right", r.into_bytes()));
                files.push(("left", l.into_bytes()));
                files.push(("cost", c.into_bytes()));
            }
        }
        let user = d.user.as_ref().map(|u| ADict::render_lex(u).into_bytes());
        if let Some(u) = &user {
            files.push(("user", u.clone()));
        }
        let nedits = 1 + rng.below(2);
        let mut what = vec![];
        for _ in 0..nedits {
            let k = rng.below(files.len());
            let how = corrupt(&mut rng, &mut files[k].1);
            what.push(json!({"file": files[k].0, "how": how}));
        }
        let get = |name: &str| files.iter().find(|x| x.0 == name).map(|x| x.1.clone()).unwrap_or_default();
        let r = catch_unwind(AssertUnwindSafe(|| {
            let dict = match &d.conn {
                AConn::Matrix { .. } => SystemDictionaryBuilder::from_readers(get("lex").as_slice(), get("matrix").as_slice(), get("char").as_slice(), get("unk").as_slice())?,
                AConn::Bigram { dual, .. } => SystemDictionaryBuilder::from_readers_with_bigram_info(
                    get("lex").as_slice(), get("right").as_slice(), get("left").as_slice(), get("cost").as_slice(), get("char").as_slice(), get("unk").as_slice(), *dual)?,
            };
            if user.is_some() {
                dict.reset_user_lexicon_from_reader(Some(get("user").as_slice()))
            } else {
                Ok(dict)
            }
        }));
        writeln!(f, "{}", outcome_event("DONT_CARE", json!({"conn": kind, "edits": what}), r)).unwrap();
    }
    0
}

// ---------------------------------------------------------------- C11

fn gen_surface(rng: &mut Rng) -> Vec<u32> {
    // letters, the CSV specials (comma, quote), blanks, multi-byte, astral - and the characters other
    // CSV dialects give a meaning to (comment '#', ';', escape '\\', single quote), which are plain text here
    let pool: &[u32] = &[0x61, 0x62, 0x63, 0x2C, 0x22, 0x20, 0xE9, 0x6771, 0x1F600, 0x3000, 0x23, 0x3B, 0x5C, 0x27, 0x0A];
    if rng.chance(1, 12) {
        return vec![];
    }
    let n = 1 + rng.below(4);
    (0..n).map(|_| *rng.pick(pool)).collect()
}

fn gen_feature(rng: &mut Rng) -> String {
    let cells = ["x", "名詞", "\"a,b\"", "\"q\"\"r\"", "", "*", " y ", "\"\"", "#c", "\\", "'"];
    let n = rng.below(4);
    let mut v: Vec<&str> = vec![];
    for _ in 0..=n {
        v.push(*rng.pick(&cells));
    }
    if rng.chance(1, 8) {
        return String::new();
    }
    v.join(",")
}

fn cell_text(s: &[u32], force: bool) -> String {
    let t = cps_to_string(s);
    if force || t.contains(',') || t.contains('"') || t.contains('\n') {
        format!("\"{}\"", t.replace('"', "\"\""))
    } else {
        t
    }
}

pub fn record_lex(a: &HashMap<String, String>) -> i32 {
    let seed: u64 = a.get("seed").and_then(|s| s.parse().ok()).unwrap_or(1);
    let n: usize = a.get("n").and_then(|s| s.parse().ok()).unwrap_or(100);
    let maxrows: usize = a.get("rows").and_then(|s| s.parse().ok()).unwrap_or(12);
    let out = a.get("out").expect("--out");
    let mut rng = Rng::new(seed ^ 0xC511);
    let mut f = std::io::BufWriter::new(std::fs::File::create(out).expect("create"));
    for i in 0..n {
        let user_path = i % 3 == 2;
        // ids: an extreme value on at most one side so that the matrix stays small
        let (maxl, maxr): (u32, u32) = match rng.below(4) {
            0 => (65534, 2),
            1 => (2, 65534),
            _ => (3, 3),
        };
        let nrows = rng.below(maxrows + 1);
        let mut rows: Vec<(Vec<u32>, u32, u32, i32, String)> = vec![];
        if i % 50 == 11 {
            // one surface with 256..300 homographs (the postings of a surface are a counted list)
            let s = vec![0x61, 0x62];
            for k in 0..(256 + rng.below(45)) {
                rows.push((s.clone(), rng.below(3) as u32, rng.below(3) as u32, (k % 7) as i32, format!("h{k}")));
            }
        }
        for _ in 0..nrows {
            let s = if !rows.is_empty() && rng.chance(1, 4) {
                let mut b = rng.pick(&rows).0.clone();
                if rng.chance(1, 2) {
                    b.push(0x61); // a surface that extends another
                }
                b
            } else {
                gen_surface(&mut rng)
            };
            let l = if rng.chance(1, 4) { maxl } else { rng.below(3) as u32 };
            let r = if rng.chance(1, 4) { maxr } else { rng.below(3) as u32 };
            let c = *rng.pick(&[-32768, -1, 0, 7, 32767]);
            rows.push((s, l, r, c, gen_feature(&mut rng)));
        }
        let force = rng.chance(1, 4);
        let mut text = String::new();
        if rng.chance(1, 5) {
            text.push('\n');
        }
        for (k, (s, l, r, c, feat)) in rows.iter().enumerate() {
            // a quote-everything writer also quotes the numeric columns
            let num = |rng: &mut Rng, v: String| -> String { if force && rng.chance(1, 2) { format!("\"{}\"", v) } else { v } };
            let (lt, rt, ct) = (num(&mut rng, l.to_string()), num(&mut rng, r.to_string()), num(&mut rng, c.to_string()));
            text.push_str(&format!("{},{},{},{},{}", cell_text(s, force), lt, rt, ct, feat));
            if k + 1 < rows.len() {
                text.push('\n');
                if rng.chance(1, 6) {
                    text.push('\n');
                }
            }
        }
        if !rows.is_empty() && rng.chance(2, 3) {
            text.push('\n');
            if rng.chance(1, 5) {
                text.push_str("\n\n");
            }
        }
        let matrix = format!("{} {}\n0 0 0\n", maxr + 1, maxl + 1);
        let chr = "DEFAULT 0 1 0\n";
        let unk = "DEFAULT,0,0,100,*\n";
        let lt: u8 = if user_path { 1 } else { 0 };
        let built = catch_unwind(AssertUnwindSafe(|| {
            if user_path {
                let d = SystemDictionaryBuilder::from_readers("zz,0,0,0,z\n".as_bytes(), matrix.as_bytes(), chr.as_bytes(), unk.as_bytes())?;
                d.reset_user_lexicon_from_reader(Some(text.as_bytes()))
            } else {
                SystemDictionaryBuilder::from_readers(text.as_bytes(), matrix.as_bytes(), chr.as_bytes(), unk.as_bytes())
            }
        }));
        let tcps: Vec<u32> = text.chars().map(|c| c as u32).collect();
        match built {
            Ok(Ok(dict)) => {
                let nwords = dict.verif_num_words(lt);
                let words: Vec<Value> = (0..nwords).map(|w| {
                    let idx = vibrato::verif::word_idx(lt, w as u32);
                    let (l, r, c) = dict.verif_word_param(idx);
                    json!({"l": l, "r": r, "c": c, "f": string_to_cps(dict.word_feature(idx))})
                }).collect();
                // which stored words have a given surface: tokenize the surface and read the lattice
                let mut surfaces: Vec<Vec<u32>> = rows.iter().map(|r| r.0.clone()).filter(|s| !s.is_empty()).collect();
                surfaces.sort();
                surfaces.dedup();
                let tok = Tokenizer::new(dict);
                let mut probes = vec![];
                for s in surfaces {
                    let mut w = tok.new_worker();
                    w.reset_sentence(cps_to_string(&s));
                    w.tokenize();
                    let lat = w.verif_lattice();
                    let ids: Vec<u32> = lat.ends.get(s.len()).map(|v| v.iter().filter(|n| n.lex_type == lt && n.start_word == 0).map(|n| n.word_id).collect()).unwrap_or_default();
                    probes.push(json!({"s": s, "ids": ids}));
                }
                writeln!(f, "{}", json!({"ev": "lex", "user": user_path, "text": tcps, "ok": true, "words": words, "probes": probes})).unwrap();
            }
            Ok(Err(e)) => writeln!(f, "{}", json!({"ev": "lex", "user": user_path, "text": tcps, "ok": false, "words": [], "probes": [], "msg": e.to_string().chars().take(100).collect::<String>()})).unwrap(),
            Err(_) => writeln!(f, "{}", json!({"ev": "build", "class": "VALID", "outcome": "panic", "probes": [], "nounk": [], "what": {"lex": tcps}})).unwrap(),
        }
    }
    0
}
