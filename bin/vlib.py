"""Shared machinery of /verif/bin/check: building the harness, running TLC (model checking,
behaviour generation, trace validation), evidence and known-findings bookkeeping.

Exit-code contract (see DESIGN 4.3): 0 = property held on everything explored,
1 = violation (with a line `VIOLATION property=<id> replay=<path>`), 2 = tool error / time-out.
"""
import fcntl
import json
import os
import re
import shutil
import subprocess
import sys
import time

VERIF = os.path.dirname(os.path.dirname(os.path.abspath(__file__)))     # /verif, or a snapshot of it (vp run)
SPEC = os.path.join(VERIF, "spec")
HARNESS = os.path.join(VERIF, "harness")
WORK = os.path.join(VERIF, ".work")
EVID = os.path.join(VERIF, "evidence")
REPLAYS = os.path.join(VERIF, "replays")
BIN = os.path.join(HARNESS, "target", "release", "vharness")
BIN_AVX2 = os.path.join(HARNESS, "target-avx2", "release", "vharness")
JAVA_TRACE_OPTS = "-Xss1g -Dfile.encoding=UTF-8 -Dsun.stdout.encoding=UTF-8 -Dtlc2.tool.queue.IStateQueue=StateDeque"
JAVA_MC_OPTS = "-Xss512m -Dfile.encoding=UTF-8 -Dsun.stdout.encoding=UTF-8"


class ToolError(Exception):
    pass


def log(*a):
    print(*a, file=sys.stderr, flush=True)


_wd_counter = [0]
_wd_lock = __import__("threading").Lock()


def workdir(name):
    with _wd_lock:
        _wd_counter[0] += 1
        n = _wd_counter[0]
    d = os.path.join(WORK, "%s-%d-%d" % (name, os.getpid(), n))
    shutil.rmtree(d, ignore_errors=True)
    os.makedirs(d, exist_ok=True)
    return d


# --------------------------------------------------------------------------- building

def build_harness(avx2=False):
    """Rebuilds the harness (and therefore vibrato, from /repo's working tree, hooks on).
    Serialised with a lock file so that checks may run concurrently."""
    os.makedirs(WORK, exist_ok=True)
    lock = open(os.path.join(WORK, "build.lock"), "w")
    fcntl.flock(lock, fcntl.LOCK_EX)
    try:
        env = dict(os.environ)
        env["CARGO_NET_OFFLINE"] = "true"
        cmd = ["cargo", "build", "--release", "--offline"]
        if avx2:
            env["CARGO_TARGET_DIR"] = os.path.join(HARNESS, "target-avx2")
            env["RUSTFLAGS"] = "--cfg vibrato_verif --check-cfg cfg(vibrato_verif) -C target-feature=+avx2"
        t0 = time.time()
        p = subprocess.run(cmd, cwd=HARNESS, env=env, stdout=subprocess.PIPE, stderr=subprocess.STDOUT, text=True)
        if p.returncode != 0:
            log(p.stdout[-4000:])
            raise ToolError("harness build failed (avx2=%s)" % avx2)
        log("[build] harness%s ok in %.1fs" % (" (avx2)" if avx2 else "", time.time() - t0))
    finally:
        fcntl.flock(lock, fcntl.LOCK_UN)
        lock.close()
    return BIN_AVX2 if avx2 else BIN


CLI_DIR = os.path.join(HARNESS, "target-cli")


def build_cli():
    """Builds vibrato's command-line tools from /repo's working tree into the harness' own target
    directory (nothing is written under /repo)."""
    os.makedirs(WORK, exist_ok=True)
    lock = open(os.path.join(WORK, "build.lock"), "w")
    fcntl.flock(lock, fcntl.LOCK_EX)
    try:
        env = dict(os.environ)
        env["CARGO_NET_OFFLINE"] = "true"
        env["CARGO_TARGET_DIR"] = CLI_DIR
        t0 = time.time()
        p = subprocess.run(["cargo", "build", "--release", "--offline", "-p", "compile", "-p", "tokenize", "-p", "map", "-p", "train", "-p", "dictgen", "-p", "evaluate"],
                           cwd="/repo", env=env, stdout=subprocess.PIPE, stderr=subprocess.STDOUT, text=True)
        if p.returncode != 0:
            log(p.stdout[-3000:])
            raise ToolError("building the command-line tools failed")
        log("[build] command-line tools ok in %.1fs" % (time.time() - t0))
    finally:
        fcntl.flock(lock, fcntl.LOCK_UN)
        lock.close()
    return os.path.join(CLI_DIR, "release")


def build_mecabsd():
    """Builds /repo/examples/mecab_smalldic (excluded from the workspace, no lock file) through the
    wrapper crate harness/mecabsd: its main.rs is copied from /repo first, nothing is written under /repo."""
    src = "/repo/examples/mecab_smalldic/src/main.rs"
    dst = os.path.join(HARNESS, "mecabsd", "src", "main.rs")
    os.makedirs(os.path.dirname(dst), exist_ok=True)
    lock = open(os.path.join(WORK, "build.lock"), "w")
    fcntl.flock(lock, fcntl.LOCK_EX)
    try:
        new = open(src).read()
        if not os.path.exists(dst) or open(dst).read() != new:
            open(dst, "w").write(new)
        env = dict(os.environ)
        env["CARGO_NET_OFFLINE"] = "true"
        p = subprocess.run(["cargo", "build", "--release", "--offline"], cwd=os.path.join(HARNESS, "mecabsd"), env=env,
                           stdout=subprocess.PIPE, stderr=subprocess.STDOUT, text=True)
        if p.returncode != 0:
            log(p.stdout[-3000:])
            raise ToolError("building examples/mecab_smalldic failed")
    finally:
        fcntl.flock(lock, fcntl.LOCK_UN)
        lock.close()
    return os.path.join(CLI_DIR, "release")


def cpu_has_avx2():
    try:
        return " avx2" in open("/proc/cpuinfo").read()
    except OSError:
        return False


def harness(args, binary=None, timeout=1800, check=True):
    """Runs the harness; stderr (vibrato prints progress there) is discarded."""
    try:
        p = subprocess.run([binary or BIN] + [str(a) for a in args], stdout=subprocess.PIPE,
                           stderr=subprocess.DEVNULL, text=True, timeout=timeout)
    except subprocess.TimeoutExpired:
        raise ToolError("harness %s did not finish within %d s" % (args[0], timeout))
    if check and p.returncode != 0:
        raise ToolError("harness %s exited %d: %s" % (args[0], p.returncode, p.stdout[-2000:]))
    return p


# --------------------------------------------------------------------------- TLC

def write_cfg(path, base_cfg, consts=None, drop_invariants=False, invariants=None, properties=None):
    """Derives a cfg from a committed one, overriding constants (and optionally the
    invariant / property lists)."""
    txt = open(os.path.join(SPEC, base_cfg)).read()
    for k, v in (consts or {}).items():
        txt, n = re.subn(r"(?m)^(\s*%s\s*=\s*).*$" % re.escape(k), lambda m: m.group(1) + tla_value(v), txt)
        if n == 0:
            raise ToolError("constant %s not in %s" % (k, base_cfg))
    if invariants is not None:
        txt = re.sub(r"(?m)^INVARIANTS?.*$", "INVARIANTS " + " ".join(invariants) if invariants else "", txt)
    if properties is not None:
        txt = re.sub(r"(?m)^PROPERT(Y|IES).*$", ("PROPERTY " + " ".join(properties)) if properties else "", txt)
    open(path, "w").write(txt)
    return path


def tla_value(v):
    if isinstance(v, bool):
        return "TRUE" if v else "FALSE"
    if isinstance(v, int):
        return str(v)
    return '"%s"' % v


def run_tlc(spec, cfg, meta, workers=16, timeout=1500, env_extra=None, simulate=None, java_opts=None, heap=None):
    env = dict(os.environ)
    env["JAVA_TOOL_OPTIONS"] = java_opts or JAVA_MC_OPTS
    # TLC unpacks module jars into java.io.tmpdir; keep that inside the per-run work directory
    jtmp = os.path.join(os.path.dirname(meta), "jtmp")
    os.makedirs(jtmp, exist_ok=True)
    env["JAVA_TOOL_OPTIONS"] += " -Djava.io.tmpdir=" + jtmp
    if env_extra:
        env.update(env_extra)
    cmd = ["timeout", str(timeout), "tlc"]
    if heap:
        cmd += ["-Xmx" + heap] if False else []
    cmd += ["-workers", str(workers), "-metadir", meta, "-cleanup", "-noGenerateSpecTE", "-config", cfg]
    if simulate:
        cmd += ["-simulate", simulate]
    cmd += [spec]
    t0 = time.time()
    p = subprocess.run(cmd, cwd=SPEC, env=env, stdout=subprocess.PIPE, stderr=subprocess.STDOUT, text=True)
    out = p.stdout
    shutil.rmtree(meta, ignore_errors=True)
    shutil.rmtree(jtmp, ignore_errors=True)
    if p.returncode == 124:
        raise ToolError("TLC timed out after %ss on %s" % (timeout, spec))
    return out, time.time() - t0


def parse_mc(out):
    """states generated / distinct / depth from a TLC run; error classification."""
    r = {"generated": 0, "distinct": 0, "depth": 0, "ok": False, "violated": None}
    m = re.findall(r"(\d[\d,]*) states generated, (\d[\d,]*) distinct states found", out)
    if m:
        r["generated"] = int(m[-1][0].replace(",", ""))
        r["distinct"] = int(m[-1][1].replace(",", ""))
    m = re.search(r"depth of the complete state graph search is (\d+)", out)
    if m:
        r["depth"] = int(m.group(1))
    if "Model checking completed. No error has been found." in out:
        r["ok"] = True
    m = re.search(r"Error: Invariant (\S+) is violated", out)
    if m:
        r["violated"] = m.group(1)
    elif "Temporal properties were violated" in out or "Action property" in out and "violated" in out:
        r["violated"] = "temporal"
    return r


def model_check(name, spec, base_cfg, consts=None, workers=16, timeout=1500, invariants=None, properties=None):
    """Runs an exhaustive TLC model check; a violated invariant of the SPECIFICATION is a
    tool error for the registered checks (the design itself would be refuted)."""
    wd = workdir("mc-" + name)
    cfg = write_cfg(os.path.join(wd, "mc.cfg"), base_cfg, consts, invariants=invariants, properties=properties)
    out, secs = run_tlc(spec, cfg, os.path.join(wd, "meta"), workers=workers, timeout=timeout)
    r = parse_mc(out)
    r["secs"] = round(secs, 1)
    r["spec"] = spec
    r["consts"] = consts or {}
    if not r["ok"]:
        open(os.path.join(wd, "tlc.out"), "w").write(out)
        log(out[-3000:])
        raise ToolError("model check %s did not complete cleanly (see %s/tlc.out)" % (name, wd))
    shutil.rmtree(wd, ignore_errors=True)
    log("[mc] %s: %d distinct states, %d generated, depth %d, %.1fs" % (name, r["distinct"], r["generated"], r["depth"], secs))
    return r


def generate(name, spec, base_cfg, consts=None, workers=8, timeout=900, tag="GEN"):
    """Runs a generator specification; returns the JSON payloads it printed
    (lines of the form <<"GEN", "<json>">>)."""
    wd = workdir("gen-" + name)
    cfg = write_cfg(os.path.join(wd, "gen.cfg"), base_cfg, consts)
    out, secs = run_tlc(spec, cfg, os.path.join(wd, "meta"), workers=workers, timeout=timeout)
    r = parse_mc(out)
    if not r["ok"]:
        open(os.path.join(wd, "tlc.out"), "w").write(out)
        log(out[-3000:])
        raise ToolError("generator %s failed (see %s/tlc.out)" % (name, wd))
    items = []
    pat = re.compile(r'^<<"%s", "(.*)">>$' % tag)
    for line in out.splitlines():
        m = pat.match(line.strip())
        if m:
            s = m.group(1)
            # TLC prints the string with TLA+ escapes: \" and \\
            s = s.replace('\\"', '"').replace("\\\\", "\\")
            try:
                items.append(json.loads(s))
            except json.JSONDecodeError as e:
                raise ToolError("generator %s printed unparsable JSON: %s ... (%s)" % (name, s[:200], e))
    shutil.rmtree(wd, ignore_errors=True)
    log("[gen] %s: %d behaviours, %d states, %.1fs" % (name, len(items), r["distinct"], secs))
    return items, r


def validate_trace(name, spec, base_cfg, trace_path, consts=None, timeout=1500):
    """Validates an ndjson trace. Returns dict(accepted, n_events, rejected_line, rejected_event,
    failed_clauses, states)."""
    wd = workdir("tv-" + name)
    cfg = write_cfg(os.path.join(wd, "tv.cfg"), base_cfg, consts)
    out, secs = run_tlc(spec, cfg, os.path.join(wd, "meta"), workers=1, timeout=timeout,
                        env_extra={"TRACE": trace_path}, java_opts=JAVA_TRACE_OPTS)
    n_events = sum(1 for _ in open(trace_path))
    res = {"accepted": False, "n_events": n_events, "rejected_line": None, "failed_clauses": [],
           "secs": round(secs, 1), "states": parse_mc(out)["distinct"]}
    for m in re.finditer(r'<<\s*"FAILED-CLAUSE",\s*"(\w+)",\s*"([^"]*)",\s*(\d+)\s*>>', out):
        res["failed_clauses"].append((m.group(1), m.group(2), int(m.group(3))))
    m = re.search(r'<<"REJECTED", (\d+),', out)
    if m:
        res["rejected_line"] = int(m.group(1))
    elif "Model checking completed. No error has been found." in out and not res["failed_clauses"]:
        res["accepted"] = True
    else:
        if "Postcondition" in out and "is false" in out:
            pass
        else:
            open(os.path.join(wd, "tlc.out"), "w").write(out)
            log(out[-3000:])
            raise ToolError("trace validation %s: TLC failed (see %s/tlc.out)" % (name, wd))
    if res["accepted"] and res["states"] != n_events + 1:
        raise ToolError("trace validation %s: accepted but %d states for %d events" % (name, res["states"], n_events))
    shutil.rmtree(wd, ignore_errors=True)
    log("[trace] %s: %d events, %s, %.1fs" % (name, n_events, "accepted" if res["accepted"] else
                                             "REJECTED at line %s %s" % (res["rejected_line"], res["failed_clauses"][:3]), secs))
    return res


# --------------------------------------------------------------------------- traces

def read_ndjson(path):
    out = []
    with open(path) as f:
        for line in f:
            line = line.strip()
            if line:
                out.append(json.loads(line))
    return out


def write_ndjson(path, items):
    with open(path, "w") as f:
        for it in items:
            f.write(json.dumps(it, ensure_ascii=False) + "\n")


SESSION_OPENERS = ("session", "build_err")


def session_index_of_line(events, line_no):
    """0-based index of the session that contains 1-based line `line_no`."""
    idx = -1
    for i, e in enumerate(events[:line_no]):
        if e.get("ev") in SESSION_OPENERS or (e.get("ev") == "panic" and e.get("op", {}).get("op") == "build"):
            idx += 1
    return idx


# --------------------------------------------------------------------------- evidence

def write_evidence(pid, tier, seed, level, coverage, wall_s, violations, assumptions):
    os.makedirs(EVID, exist_ok=True)
    ev = {"property_id": pid, "tier": tier, "seed": seed, "level": level, "coverage": coverage,
          "assumptions": assumptions, "wall_s": round(wall_s, 2), "violations": violations}
    tmp = os.path.join(EVID, pid + ".json.tmp")
    with open(tmp, "w") as f:
        json.dump(ev, f, indent=1, ensure_ascii=False)
    os.replace(tmp, os.path.join(EVID, pid + ".json"))


def save_replay(pid, seed, n, payload):
    os.makedirs(REPLAYS, exist_ok=True)
    path = os.path.join(REPLAYS, "%s-%s-%d.json" % (pid, seed, n))
    with open(path, "w") as f:
        json.dump(payload, f, ensure_ascii=False)
    return path


def known_findings():
    p = os.path.join(VERIF, "known_findings.json")
    if not os.path.exists(p):
        return []
    return json.load(open(p))["findings"]
